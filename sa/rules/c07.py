"""C07 -- expressions cannot reach host objects except through granted
members.  Who-may-call / must-pass-through analysis."""
import ast
import re

from sa import cfg as cfgmod
from sa import effects
from sa import absint
from sa import minieval
from sa import norm
from sa import model
from sa import universe as unimod
from sa.model import AnalysisError
from sa.rules import c09

TITLE = 'reflection sinks are owned, validated and capability-typed'

YZ = 'yaql.standard_library.yaqlized'
DYN_ATTR = {'builtins.getattr', 'builtins.setattr', 'builtins.delattr',
            'builtins.hasattr'}
FORBIDDEN_CALLS = {
    'builtins.eval', 'builtins.exec',
    'builtins.compile', 'builtins.__import__', 'builtins.open',
    'builtins.input',
    'builtins.breakpoint', 'builtins.memoryview',
    'operator.attrgetter', 'operator.methodcaller',
    'importlib.import_module', 'importlib.__import__',
    'inspect.getmembers', 'inspect.getattr_static', 'pickle.loads',
    'pickle.load', 'marshal.loads', 'os.system', 'os.popen',
    'subprocess.run', 'subprocess.Popen', 'subprocess.call',
    'subprocess.check_output', 'ctypes.cast', 'gc.get_objects',
    'gc.get_referrers', 'sys._getframe', 'string.Formatter',
    'string.Template',
}
FORBIDDEN_PREFIXES = ('importlib.', 'subprocess.', 'ctypes.', 'pickle.',
                      'marshal.')
DUNDER_READS = {'__dict__', '__class__', '__globals__', '__subclasses__',
                '__mro__', '__code__', '__bases__', '__builtins__',
                '__getattribute__', '__closure__', '__func__', '__self__',
                '__wrapped__', '__reduce__', '__reduce_ex__', '__init__',
                '__new__', '__subclasshook__', '__base__'}
PROBE_NAMES = {'__yaqlization__', '__yaql_function__', '__unwrapped__'}

# (function key, sink kind) -> reason
OWNERS = {
    (YZ + ':op_dot', 'getattr'): 'method call on a yaqlized object',
    (YZ + ':attribution', 'getattr'): 'attribute read on a yaqlized object',
    (YZ + ':indexation', 'index'): 'indexing a yaqlized object',
}
DATA_CALL_OWNERS = {
    (YZ + ':op_dot', 'func'):
        'the validated member of a yaqlized object (R07b/c)',
    ('yaql.standard_library.system:call', 'callable_'):
        '#call: registered only when the host passes delegates=True',
    (YZ + ':_match_name_to_entry', 'entry'):
        'host-configured whitelist/blacklist predicate',
}
DUNDER_OWNERS = {
    (YZ + ':_auto_yaqlize', '__module__'):
        'compares the class\'s module name with builtins to skip builtin '
        'types; the value never reaches the expression',
}
CONTAINER_TYPES = {
    'collections.abc.Mapping', 'collections.abc.MutableMapping',
    'collections.abc.Sequence', 'collections.abc.MutableSequence',
    'builtins.tuple', 'builtins.list', 'builtins.dict', 'builtins.str',
    'collections.abc.Iterable', 'collections.abc.Iterator',
    'collections.abc.Set', 'builtins.frozenset', 'builtins.set',
    'yaql.language.contexts.ContextBase', 'yaql.language.utils.FrozenDict',
}


def const_str(repo, fi, node):
    """The literal a name operand denotes (directly or via a module
    constant), else None."""
    if isinstance(node, ast.Constant) and isinstance(node.value, str):
        return node.value
    d = repo.resolve(fi.module, node, model.scope_locals(fi))
    tgt = repo.lookup(d) if d else None
    if isinstance(tgt, tuple) and tgt[0] == 'const' and isinstance(
            tgt[2], ast.Constant) and isinstance(tgt[2].value, str):
        return tgt[2].value
    return None


def _constructor_bound_public_name(repo, fi, call):
    """getattr(x, self.<attr>) in a method of a private class of the core
    whose constructor binds <attr> to one of its parameters, every
    instantiation of the class passing a string literal there (or a
    conditional expression of string literals) that is a public identifier:
    the same as writing x.<that name>."""
    nm = call.args[1]
    if fi.cls is None or not fi.module.name.startswith('yaql.language') \
            or not fi.cls.node.name.startswith('_') or not fi.params():
        return False
    if not (isinstance(nm, ast.Attribute) and isinstance(
            nm.value, ast.Name) and nm.value.id == fi.params()[0]):
        return False
    init = fi.cls.methods.get('__init__')
    if init is None:
        return False
    src = None
    for st in model.walk_shallow(init.node):
        if isinstance(st, ast.Assign) and any(
                isinstance(t, ast.Attribute) and t.attr == nm.attr and
                isinstance(t.value, ast.Name) and
                t.value.id == init.params()[0] for t in st.targets):
            if src is not None or not (isinstance(st.value, ast.Name) and
                                       st.value.id in init.params()):
                return False
            src = init.params().index(st.value.id) - 1
    if src is None:
        return False
    # the attribute is bound nowhere else
    for m in fi.cls.methods.values():
        if m is init:
            continue
        for x in ast.walk(m.node):
            if isinstance(x, ast.Attribute) and x.attr == nm.attr and \
                    isinstance(x.ctx, (ast.Store, ast.Del)):
                return False
    pname = init.params()[src + 1]
    sites = [c for c in ast.walk(fi.module.tree)
             if isinstance(c, ast.Call) and isinstance(
                 c.func, ast.Name) and c.func.id == fi.cls.node.name]
    other = [x for x in ast.walk(fi.module.tree) if isinstance(
        x, ast.Name) and x.id == fi.cls.node.name and isinstance(
        x.ctx, ast.Load) and not any(c.func is x for c in sites)]
    if not sites or other:
        return False

    def literal_names(e):
        if isinstance(e, ast.Constant) and isinstance(e.value, str):
            return [e.value]
        if isinstance(e, ast.IfExp):
            a, b = literal_names(e.body), literal_names(e.orelse)
            return a + b if a and b else []
        return []
    for c in sites:
        arg = c.args[src] if src < len(c.args) else next(
            (k.value for k in c.keywords if k.arg == pname), None)
        names = literal_names(arg) if arg is not None else []
        if not names or not all(s_.isidentifier() and
                                not s_.startswith('_') for s_ in names):
            return False
    return True


def _fixed_public_names_on_library_value(repo, uni, fi, call):
    """getattr(x, name) where `name` ranges over a module-level table of
    public identifiers and x is a parameter declared with a python library
    type (datetime.timedelta ...): the same as writing x.days, x.seconds."""
    from sa import norm
    nm = call.args[1]
    if not (isinstance(nm, ast.Name) and isinstance(
            call.args[0], ast.Name)):
        return False
    names = None
    for x in ast.walk(fi.node):
        if isinstance(x, (ast.comprehension, ast.For)):
            tg = x.target
            elts = tg.elts if isinstance(tg, (ast.Tuple, ast.List)) else [tg]
            idx = [i for i, t in enumerate(elts)
                   if isinstance(t, ast.Name) and t.id == nm.id]
            if not idx:
                continue
            rows = norm.constant_table_values(repo, fi.module, x.iter)
            if rows is None:
                return False
            names = []
            for r in rows:
                c = r.elts[idx[0]] if isinstance(
                    r, (ast.Tuple, ast.List)) else r
                names.append(c.value if isinstance(c, ast.Constant)
                             else None)
    if not names or not all(isinstance(s, str) and s.isidentifier() and
                            not s.startswith('_') for s in names):
        return False
    for ov in uni.payload_ov.get(fi.key, ()):
        for p in ov.params:
            if p.name == call.args[0].id:
                pts = p.type.python_types
                return bool(pts) and all(
                    t.split('.')[0] in ('datetime', 'decimal', 'fractions',
                                        'uuid', 're') for t in pts)
    return False


def is_data(tags):
    return any(t[0] in ('param', 'derived', 'lazyres') for t in tags)


def find_sinks(repo, uni, fi):
    """[(kind, node, detail)] reflective sinks in one function."""
    out = []
    env = uni.env(fi)
    ov = uni.payload_ov.get(fi.key, [None])[0]
    for n in model.walk_shallow(fi.node):
        if isinstance(n, ast.Call):
            d = repo.resolve(fi.module, n.func, model.scope_locals(fi))
            if d in ('builtins.vars', 'builtins.dir') and n.args:
                # vars()/dir() without argument are the function's own
                # locals; with an argument they enumerate an object
                if is_data(env.ev(n.args[0]).tags) or not isinstance(
                        n.args[0], ast.Name):
                    out.append(('forbidden-call', n, '%s(%s)' % (
                        d[9:], model.norm(n.args[0]))))
            elif d in DYN_ATTR and len(n.args) >= 2:
                lit = const_str(repo, fi, n.args[1])
                if lit is None and _fixed_public_names_on_library_value(
                        repo, uni, fi, n):
                    continue
                if lit is None and _constructor_bound_public_name(
                        repo, fi, n):
                    continue
                if lit is None:
                    # a sink when the object or the name can come from
                    # expression data; a fixed module/constant object
                    # looked up by names from a constant table is not
                    ot = env.ev(n.args[0])
                    nt = env.ev(n.args[1])
                    if is_data(ot.tags) or is_data(nt.tags) or \
                            is_data(nt.c1) or not ot.tags or any(
                                t[0] in ('selfattr', 'self', 'fresh')
                                for t in ot.tags):
                        out.append(('getattr', n, 'dynamic %s(%s, %s)' % (
                            d[9:], model.norm(n.args[0]),
                            model.norm(n.args[1]))))
                elif lit not in PROBE_NAMES:
                    if is_data(env.ev(n.args[0]).tags):
                        out.append(('getattr-const', n,
                                    '%s of a data value by the fixed name '
                                    '%r' % (d[9:], lit)))
            elif d in ('operator.attrgetter', 'operator.methodcaller') and \
                    n.args and all(
                        isinstance(const_str(repo, fi, a), str) and
                        not any(seg.startswith('_') for seg in
                                const_str(repo, fi, a).split('.'))
                        for a in (n.args if d.endswith('attrgetter')
                                  else n.args[:1])):
                # a fixed public name: the same as writing x.name
                continue
            elif d in FORBIDDEN_CALLS or (d and d.startswith(
                    FORBIDDEN_PREFIXES)):
                out.append(('forbidden-call', n, d))
            elif d == 'builtins.type' and len(n.args) == 3:
                out.append(('forbidden-call', n, 'type(name, bases, dict)'))
            elif isinstance(n.func, ast.Attribute) and n.func.attr in (
                    'format', 'format_map') and d is None:
                tv = env.ev(n.func.value)
                if is_data(tv.tags):
                    out.append(('format', n, 'str.%s with a template that '
                                'comes from expression data' % n.func.attr))
            elif isinstance(n.func, ast.Attribute) and \
                    n.func.attr == '__getattribute__':
                out.append(('getattr', n, '__getattribute__ call'))
        elif isinstance(n, ast.BinOp) and isinstance(n.op, ast.Mod):
            tv = env.ev(n.left)
            if is_data(tv.tags) and not isinstance(n.left, ast.Constant):
                # `%` with a data-supplied left operand: numeric modulo is
                # declared Number(); a str template would be a format sink
                p = None
                if isinstance(n.left, ast.Name) and ov is not None:
                    p = ov.param(n.left.id)
                numeric = p is not None and (
                    (p.type.cls or '').endswith(('.Number', '.Integer')) or
                    set(p.type.python_types) <= {'builtins.int',
                                                 'builtins.float'} and
                    p.type.python_types)
                if not numeric:
                    out.append(('format', n, '%-formatting with a template '
                                'that comes from expression data'))
        elif isinstance(n, ast.Attribute) and isinstance(n.ctx, ast.Load):
            if n.attr in DUNDER_READS or (
                    n.attr.startswith('__') and n.attr.endswith('__') and
                    n.attr not in PROBE_NAMES and n.attr not in (
                        '__name__', '__doc__', '__unwrapped__',
                        # plain strings naming where a class lives: no
                        # capability travels through them
                        '__module__', '__qualname__')):
                base = env.ev(n.value)
                if is_data(base.tags) or n.attr in DUNDER_READS and not (
                        isinstance(n.value, ast.Call) and isinstance(
                            n.value.func, ast.Name) and
                        n.value.func.id == 'super'):
                    out.append(('dunder', n, n.attr))
        elif isinstance(n, ast.Subscript) and isinstance(n.ctx, ast.Load):
            if isinstance(n.value, ast.Name) and ov is not None:
                p = ov.param(n.value.id)
                if p is not None and not p.type.hidden and not p.type.lazy \
                        and p.kind == 'pos':
                    kinds = set(p.type.python_types)
                    short = (p.type.cls or '').rsplit('.', 1)[-1]
                    containerish = bool(kinds & CONTAINER_TYPES) or short in (
                        'Iterable', 'Iterator', 'Sequence', 'String',
                        'Constant', 'StringConstant', 'Keyword') or any(
                            (repo.lookup(k) is not None and isinstance(
                                repo.lookup(k), model.ClassInfo))
                            for k in kinds)
                    guarded = _isinstance_guard(n, n.value.id)
                    if not containerish and not guarded:
                        out.append(('index', n, 'subscript on `%s`, whose '
                                    'declared type (%s) admits an arbitrary '
                                    'host object' % (p.name, p.type.text)))
        elif isinstance(n, ast.JoinedStr):
            for v in n.values:
                if isinstance(v, ast.FormattedValue) and v.format_spec is \
                        not None:
                    for s in ast.walk(v.format_spec):
                        if isinstance(s, ast.FormattedValue):
                            out.append(('format', n, 'f-string with a '
                                        'computed format spec'))
    return out


def _isinstance_guard(node, name):
    n = node
    while n is not None:
        p = getattr(n, '_parent', None)
        if isinstance(p, ast.If) and any(n is s for s in p.body):
            for c in ast.walk(p.test):
                if isinstance(c, ast.Call) and isinstance(
                        c.func, ast.Name) and c.func.id == 'isinstance' and \
                        c.args and isinstance(c.args[0], ast.Name) and \
                        c.args[0].id == name:
                    return True
        n = p
    return False


# -- R07b -------------------------------------------------------------------
def leaves_of(fi, expr, depth=0, g=None, at=None):
    """Where the value of `expr` ultimately comes from: list of
    (kind, node) with kind raw | remapped; raw = an expression not produced
    by _remap_name.  With a CFG `g` and the node `at` where the expression
    is evaluated only the reaching definitions of a name are followed."""
    out = []
    if depth > 5:
        return [('raw', expr)]
    if isinstance(expr, ast.Name):
        if g is not None and at is not None:
            defs = cfgmod.reaching_defs(g, at, expr.id)
            vals = []
            for d in defs:
                if d is g.entry:
                    out.append(('raw', expr))
                elif isinstance(d.ast, ast.Assign):
                    t0 = d.ast.targets[0]
                    if isinstance(t0, ast.Name):
                        vals.append((d.ast.value, d))
                    else:
                        # tuple target: the value is an element of the
                        # right-hand side
                        vals.append((d.ast.value, d))
                else:
                    out.append(('raw', expr))
            for v, d in vals:
                out.extend(leaves_of(fi, v, depth + 1, g, d))
            return out or [('raw', expr)]
        vals = [s.value for s in model.walk_shallow(fi.node)
                if isinstance(s, ast.Assign) and any(
                    isinstance(t, ast.Name) and t.id == expr.id
                    for t in s.targets)]
        if not vals:
            return [('raw', expr)]
        for v in vals:
            out.extend(leaves_of(fi, v, depth + 1))
        return out
    if isinstance(expr, ast.Subscript):
        return leaves_of(fi, expr.value, depth + 1, g, at)
    if isinstance(expr, ast.IfExp):
        return leaves_of(fi, expr.body, depth + 1, g, at) + leaves_of(
            fi, expr.orelse, depth + 1, g, at)
    if isinstance(expr, ast.Call) and isinstance(expr.func, ast.Name) and \
            expr.func.id == '_remap_name' and expr.args:
        inner = leaves_of(fi, expr.args[0], depth + 1, g, at)
        return [('remapped', n) for k, n in inner]
    if isinstance(expr, ast.Call) and isinstance(expr.func, ast.Attribute) \
            and expr.func.attr == 'get' and expr.args:
        inner = leaves_of(fi, expr.args[0], depth + 1, g, at)
        return [('remapped', n) for k, n in inner]
    if isinstance(expr, ast.Call) and isinstance(expr.func, ast.Name) and \
            expr.args:
        # a module-level helper that only takes its arguments apart
        # (returns built from parameters, subscripts and constants): its
        # result comes from where its arguments come from
        h = fi.module.functions.get(expr.func.id)
        if h is not None and h.parent_func is None and \
                _returns_only_parameter_parts(h):
            for a in expr.args:
                out.extend(leaves_of(fi, a, depth + 1, g, at))
            return out or [('raw', expr)]
    return [('raw', expr)]


def _returns_only_parameter_parts(h):
    ok_names = set(h.params())
    changed = True
    while changed:
        changed = False
        for s in model.walk_shallow(h.node):
            if isinstance(s, ast.Assign) and len(s.targets) == 1 and \
                    isinstance(s.targets[0], ast.Name) and \
                    s.targets[0].id not in ok_names:
                if all(n.id in ok_names for n in ast.walk(s.value)
                       if isinstance(n, ast.Name)) and not any(
                        isinstance(n, ast.Call) for n in ast.walk(s.value)):
                    ok_names.add(s.targets[0].id)
                    changed = True
    rets = [r for r in model.walk_shallow(h.node)
            if isinstance(r, ast.Return) and r.value is not None]
    if not rets:
        return False
    for r in rets:
        for n in ast.walk(r.value):
            if isinstance(n, ast.Name) and n.id not in ok_names:
                return False
            if isinstance(n, ast.Call):
                return False
    return True


def validating_helpers(repo, mod):
    """Module-level helpers that validate for their callers:
    H(obj, name, ...) calls _validate_name(<name param>, <the settings of
    obj param>) on every path to a normal return.
    -> {helper key: (index of the name parameter, index of the object
    parameter)}"""
    out = {}
    for h in mod.functions.values():
        if h.parent_func is not None or h.cls is not None or \
                h.name == '_validate_name':
            continue
        ps = h.params()
        g = cfgmod.CFG(h.node)
        for c in model.calls_in(h.node, shallow=True):
            d = repo.resolve(mod, c.func, model.scope_locals(h))
            if d != YZ + '._validate_name' or len(c.args) < 2:
                continue
            a0 = c.args[0]
            if not (isinstance(a0, ast.Name) and a0.id in ps):
                continue
            oi = None
            for i, q in enumerate(ps):
                if settings_of(repo, h, c.args[1], ast.Name(id=q,
                                                            ctx=ast.Load())):
                    oi = i
            if oi is None:
                continue
            cn = g.node_of(c)
            exits = [p for p, lab in g.exit.pred]
            if cn is not None and exits and all(
                    g.dominates(cn, e) for e in exits):
                out[h.key] = (ps.index(a0.id), oi)
    return out


def check_validation(repo, rep, uni, fi, kind, sink):
    g = cfgmod.CFG(fi.node)
    if kind == 'getattr':
        obj, name = sink.args[0], sink.args[1]
    else:
        obj, name = sink.value, sink.slice
    site = '%s/%s' % (fi.key, kind)
    sink_node = g.node_of(sink)
    vcalls = []
    helpers = validating_helpers(repo, fi.module)
    via_helper = {}
    for c in model.calls_in(fi.node, shallow=True):
        d = repo.resolve(fi.module, c.func, model.scope_locals(fi))
        if d == YZ + '._validate_name':
            vcalls.append(c)
        else:
            t = repo.lookup(d) if d else None
            if isinstance(t, model.FuncInfo) and t.key in helpers:
                ni, oi = helpers[t.key]
                if ni < len(c.args) and oi < len(c.args):
                    vcalls.append(c)
                    via_helper[id(c)] = (c.args[ni], c.args[oi])
    if not vcalls:
        rep.ob('R07b', site, False,
               'host member access `%s` is not preceded by any '
               '_validate_name call: underscore names, whitelist and '
               'blacklist are not enforced' % model.norm(sink),
               loc=fi.module.loc(sink), construct=model.norm(sink))
        return
    # raw names the sink's name operand comes from
    leaves = leaves_of(fi, name, 0, g, sink_node)
    raw_names = {model.norm(n) for k, n in leaves}
    ok_any = False
    why = []
    for v in vcalls:
        vn = g.node_of(v)
        if vn is None or sink_node is None or not g.dominates(vn, sink_node) \
                or vn is sink_node:
            why.append('_validate_name call at line %d does not dominate '
                       'the access' % v.lineno)
            continue
        if not v.args:
            continue
        a = v.args[0]
        if id(v) in via_helper:
            a = via_helper[id(v)][0]
        aleaves = leaves_of(fi, a, 0, g, vn)
        if any(k == 'remapped' for k, n in aleaves):
            why.append('validates the *remapped* name %s: the rules must '
                       'be applied to the name the expression wrote' %
                       model.norm(a))
            continue
        if not ({model.norm(n) for k, n in aleaves} & raw_names):
            why.append('validates %s, but the access uses a name derived '
                       'from %s' % (model.norm(a), sorted(raw_names)))
            continue
        # settings of the same object
        if id(v) in via_helper:
            s_ok = model.norm(via_helper[id(v)][1]) == model.norm(obj)
        else:
            s_ok = len(v.args) > 1 and settings_of(repo, fi, v.args[1],
                                                   obj)
        if not s_ok:
            why.append('validated against settings that are not those of '
                       'the accessed object %s' % model.norm(obj))
            continue
        ok_any = True
    rep.ob('R07b', site, ok_any,
           'validated raw name dominates the access' if ok_any else
           'host member access `%s` is not dominated by a _validate_name '
           'call on the expression-supplied name with the object\'s own '
           'settings (%s)' % (model.norm(sink), '; '.join(why)),
           loc=fi.module.loc(sink), construct=model.norm(sink))
    # the name operand derives only from the raw name or its remapping
    for k, n in leaves:
        if isinstance(n, (ast.Constant,)):
            continue
        root, _ = effects.root_of(n)
        ok = root in fi.params()
        rep.ob('R07b', site + '/name-operand', ok,
               'name operand of the access comes from %s, not from a '
               'parameter holding the expression-supplied name' %
               model.norm(n), loc=fi.module.loc(sink))


def settings_of(repo, fi, sexpr, obj):
    """sexpr denotes yaqlization.get_yaqlization_settings(<obj>)."""
    want = model.norm(obj)
    cands = [sexpr]
    if isinstance(sexpr, ast.Name):
        cands = [s.value for s in model.walk_shallow(fi.node)
                 if isinstance(s, ast.Assign) and any(
                     isinstance(t, ast.Name) and t.id == sexpr.id
                     for t in s.targets)]
    if not cands:
        return False
    for c in cands:
        if not (isinstance(c, ast.Call) and repo.resolve(
                fi.module, c.func, model.scope_locals(fi)) ==
                'yaql.yaqlization.get_yaqlization_settings' and c.args and
                model.norm(c.args[0]) == want):
            return False
    return True


def check_capability(repo, rep, uni, fi, kind, sink):
    ovs = uni.payload_ov.get(fi.key)
    site = '%s/%s' % (fi.key, kind)
    if not ovs:
        rep.ob('R07c', site, False, 'sink in a function that is not a '
               'registered overload: no declared type guards the object',
               loc=fi.module.loc(sink))
        return
    obj = sink.args[0] if kind == 'getattr' else sink.value
    if not isinstance(obj, ast.Name) or ovs[0].param(obj.id) is None:
        rep.ob('R07c', site, False, 'accessed object %s is not a declared '
               'parameter' % model.norm(obj), loc=fi.module.loc(sink))
        return
    p = ovs[0].param(obj.id)
    if kind == 'index':
        flag = 'can_index'
    else:
        # is the fetched member called?
        called = False
        par = getattr(sink, '_parent', None)
        if isinstance(par, ast.Assign) and isinstance(
                par.targets[0], ast.Name):
            nm = par.targets[0].id
            for c in model.calls_in(fi.node, shallow=True):
                if isinstance(c.func, ast.Name) and c.func.id == nm:
                    called = True
        elif isinstance(par, ast.Call) and par.func is sink:
            called = True
        flag = 'can_call_methods' if called else 'can_access_attributes'
    ok = p.type.smart and (p.type.cls or '').endswith('.Yaqlized') and \
        p.type.flag(flag) is True
    rep.ob('R07c', site, ok,
           'parameter `%s` is declared %s; the %s access requires '
           'Yaqlized(%s=True) so that objects that are not yaqlized, or '
           'whose settings switch this access kind off, never match' % (
               p.name, p.type.text, kind, flag),
           loc=fi.module.loc(sink), construct=p.type.text)


# -- R07d / R07e ---------------------------------------------------------------
def check_validate_name(repo, rep):
    """R07d, decided by exhaustive abstract evaluation of _validate_name:
    names x whitelists x blacklists of up to two opaque entries x every
    valuation of "entry matches name" (an oracle).  Independent of how the
    procedure spells its loops / helpers / early exits."""
    import itertools
    mod = repo.module(YZ)
    fi = mod.func('_validate_name')
    matcher = mod.func('_match_name_to_entry')
    under_names = ('_x', '__class__', '_', '__x', '_a_')
    plain_names = ('x', 'a_b', 'x_', 'a__b')
    W = [absint.Sym('w1'), absint.Sym('w2')]
    B = [absint.Sym('b1'), absint.Sym('b2')]
    n = 0
    bad = {'underscore': [], 'whitelist-miss': [], 'blacklist-hit': [],
           'granted': []}
    undecided = None
    for name in under_names + plain_names:
        for nw in (0, 1, 2):
            for nb in (0, 1, 2):
                for val in itertools.product((False, True),
                                             repeat=nw + nb):
                    truth = dict(zip([id(x) for x in W[:nw] + B[:nb]], val))

                    def oracle(callee, args, kwargs, _t=truth):
                        if callee == matcher.key:
                            return (_t.get(id(args[1]), False),)
                        return None
                    settings = {'whitelist': list(W[:nw]),
                                'blacklist': list(B[:nb])}
                    it = absint.Interp(repo, mod, oracle)
                    try:
                        out = it.run(fi.node, {0: name, 1: settings})
                    except absint.Unsupported as e:
                        undecided = str(e)
                        break
                    n += 1
                    wm = any(val[:nw])
                    bm = any(val[nw:])
                    desc = 'name=%r whitelist=%s blacklist=%s' % (
                        name, ['match' if v else 'no-match'
                               for v in val[:nw]],
                        ['match' if v else 'no-match' for v in val[nw:]])
                    raised = out[0] == 'raise'
                    if name.startswith('_'):
                        if not raised:
                            bad['underscore'].append(desc)
                    elif nw and not wm:
                        if not raised:
                            bad['whitelist-miss'].append(desc)
                    elif not nw and bm:
                        if not raised:
                            bad['blacklist-hit'].append(desc)
                    elif not bm:
                        if raised:
                            bad['granted'].append(desc)
    if undecided is not None:
        raise AnalysisError('R07d: _validate_name uses a construct outside '
                            'the modelled fragment (%s): not decided' %
                            undecided)
    texts = {
        'underscore': ('underscore-first', 'a name that begins with an '
                       'underscore must be refused whatever the lists say'),
        'whitelist-miss': ('whitelist-miss-raises', 'with a non-empty '
                           'whitelist a name that matches no entry must be '
                           'refused'),
        'blacklist-hit': ('blacklist-hit-raises', 'a name matching a '
                          'blacklist entry must be refused'),
        'granted': ('granted-names-pass', 'a plain name that the lists '
                    'grant must not be refused'),
    }
    for k, (label, text) in texts.items():
        rep.ob('R07d', fi.key + '/' + label, not bad[k],
               '%s; _validate_name %s for %d scenario(s), e.g. %s' % (
                   text, 'accepts' if k != 'granted' else 'refuses',
                   len(bad[k]), bad[k][:2]),
               loc=mod.loc(fi.node), construct='; '.join(bad[k][:2]))
    rep.floor('_validate_name scenarios evaluated', n, 400)


def check_classifiers_are_type_tests(repo, rep):
    """R07i: utils.is_iterable / is_sequence / is_iterator / is_mutable
    decide whether a value found *inside the data* is walked as a nested
    collection or left alone as an opaque leaf.  They may look at its type
    only: probing the value (iter(obj), len(obj), obj[0], hasattr ...) runs
    code of a host object that was never granted to the expression, and
    makes __getitem__-only objects walkable."""
    mod = repo.module('yaql.language.utils')
    n = 0
    names = set()
    for fi in mod.functions.values():
        if fi.parent_func is not None or fi.cls is not None or \
                not fi.name.startswith('is_') or len(fi.params()) != 1:
            continue
        p = fi.params()[0]
        if not any(isinstance(c.func, ast.Name) and
                   c.func.id == 'isinstance' and c.args and isinstance(
                       c.args[0], ast.Name) and c.args[0].id == p
                   for c in model.calls_in(fi.node)):
            continue
        names.add(fi.name)
    for name in sorted(names):
        fi = mod.functions[name]
        p = fi.params()[0]
        n += 1
        bad = []
        for x in ast.walk(fi.node):
            if not (isinstance(x, ast.Name) and x.id == p and
                    isinstance(x.ctx, ast.Load)):
                continue
            par = getattr(x, '_parent', None)
            if isinstance(par, ast.Call) and par.args and \
                    par.args[0] is x and isinstance(par.func, ast.Name) \
                    and (par.func.id in ('isinstance', 'type') or
                         par.func.id in names):
                continue
            if isinstance(par, ast.Call) and par.args and \
                    par.args[0] is x and isinstance(
                        par.func, ast.Attribute) and par.func.attr in names:
                continue
            if isinstance(par, ast.Compare) and all(
                    isinstance(o, (ast.Is, ast.IsNot)) for o in par.ops):
                continue
            bad.append(par if par is not None else x)
        rep.ob('R07i', fi.key, not bad,
               '%s classifies values found in the data by their type; `%s` '
               'does something else with the value (protocol probing runs '
               'code of a host object the expression was never granted, '
               'and turns sequence-protocol objects into collections that '
               'flatten / the output converter walk by calling their '
               '__getitem__)' % (fi.name, model.norm(bad[0])[:60]
                                 if bad else ''),
               loc=mod.loc(bad[0] if bad else fi.node),
               construct=model.norm(bad[0])[:100] if bad else '')
    rep.floor('type classifiers of utils', n, 4)


def check_yaqlized_type(repo, rep):
    """R07e, by exhaustive abstract evaluation of Yaqlized's checker over
    (object has settings?) x (the three switches) x (the three requested
    capabilities)."""
    import itertools
    mod = repo.module(YZ)
    init = mod.functions.get('Yaqlized.__init__')
    if init is None:
        raise AnalysisError('anchor vanished: Yaqlized.__init__')
    flags = [p for p in init.params()[1:]]
    keys = {'can_access_attributes': 'yaqlizeAttributes',
            'can_call_methods': 'yaqlizeMethods',
            'can_index': 'yaqlizeIndexer'}
    if set(flags) != set(keys):
        raise AnalysisError('Yaqlized.__init__ capabilities changed: %s' %
                            flags)
    obj = absint.Sym('obj')

    def checker_for(want):
        """Run Yaqlized.__init__ abstractly for one choice of capabilities
        and capture what it hands to the base-class constructor as the
        checker, wherever and however that callable was built."""
        got = []

        def oracle(callee, args, kwargs):
            if callee == 'builtins.super':
                return (absint.Obj('super',
                                   __init__=absint.Sym('base-init')),)
            if callee == 'base-init' or callee.endswith(
                    'GenericType.__init__'):
                c = kwargs.get('checker')
                if c is None:
                    rest = [a for a in args if not isinstance(
                        a, absint.Obj)]
                    c = rest[0] if rest else None
                got.append(c)
                return (None,)
            return None
        it = absint.Interp(repo, mod, oracle)
        amap = {0: absint.Obj('self', __class__=mod.cls('Yaqlized'))}
        amap.update(dict(zip(flags, want)))
        try:
            it.run(init.node, amap)
        except absint.Unsupported as e:
            raise AnalysisError('R07e: Yaqlized.__init__ uses a construct '
                                'outside the modelled fragment (%s): not '
                                'decided' % e)
        if len(got) != 1 or not (isinstance(got[0], absint.Closure) or (
                isinstance(got[0], tuple) and got[0] and
                got[0][0] in ('bound', 'partial'))):
            raise AnalysisError('anchor vanished: the checker Yaqlized '
                                'hands to GenericType (%r)' % (got,))
        return got[0]
    n = 0
    bad_none = []
    bad_flag = {f: [] for f in flags}
    bad_ok = []
    src_ok = [True]
    checkers = {want: checker_for(want) for want in itertools.product(
        (False, True), repeat=3)}
    for has in (False, True):
        for sw in itertools.product((False, True), repeat=3):
            for want in itertools.product((False, True), repeat=3):
                settings = None if not has else dict(
                    zip([keys[f] for f in flags], sw))
                asked = []

                def oracle(callee, args, kwargs, _s=settings):
                    if callee.endswith('get_yaqlization_settings'):
                        asked.append(args[0])
                        return (_s,)
                    return None
                it = absint.Interp(repo, mod, oracle)
                clo = checkers[want]
                try:
                    try:
                        out = ('return', it.invoke(
                            clo, [obj, absint.Sym('context'),
                                  absint.Sym('engine')], {}))
                    except absint._Raise as r:
                        out = ('raise', r.v)
                except absint.Unsupported as e:
                    raise AnalysisError(
                        'R07e: the Yaqlized checker uses a construct '
                        'outside the modelled fragment (%s): not decided'
                        % e)
                n += 1
                if not asked or any(a is not obj for a in asked):
                    src_ok[0] = False
                accepted = out[0] == 'return' and bool(out[1])
                desc = 'settings=%s requested=%s' % (
                    settings, dict(zip(flags, want)))
                if not has:
                    if accepted:
                        bad_none.append(desc)
                    continue
                denied = [f for f, w, s in zip(flags, want, sw)
                          if w and not s]
                if denied and accepted:
                    bad_flag[denied[0]].append(desc)
                if not denied and not accepted:
                    bad_ok.append(desc)
    rep.ob('R07e', '%s.check_value' % init.key, not bad_none and src_ok[0],
           'an object without yaqlization settings must be rejected, and '
           'the settings must be read from the object itself (accepted '
           'without settings: %s; settings-from-object=%s)' % (
               bad_none[:2], src_ok[0]), loc=mod.loc(init.node))
    for f in flags:
        rep.ob('R07e', '%s.check_value/%s' % (init.key, f), not bad_flag[f],
               'capability %s must reject objects whose settings switch %s '
               'off; accepted: %s' % (f, keys[f], bad_flag[f][:2]),
               loc=mod.loc(init.node))
    rep.ob('R07e', '%s.check_value/accepts-granted' % init.key, not bad_ok,
           'an object whose settings grant every requested capability must '
           'be accepted; rejected: %s' % bad_ok[:2], loc=mod.loc(init.node))
    rep.floor('Yaqlized checker scenarios evaluated', n, 72)


# -- R07f ----------------------------------------------------------------------
def _eval_signature(fi, call):
    """f(receiver, context, engine): evaluation of an Expression node."""
    if len(call.args) == 3 and not call.keywords:
        last = call.args[2]
        mid = call.args[1]
        return isinstance(last, ast.Name) and last.id in (
            'engine', '__engine') and isinstance(mid, ast.Name)
    return False


def _dispatch_signature(call):
    """context(name, engine, ...) -- dispatch through a context -- or the
    call of what such a dispatch returned."""
    if isinstance(call.func, ast.Call):
        return _dispatch_signature(call.func)
    if len(call.args) >= 2 and isinstance(call.args[1], ast.Name) and \
            call.args[1].id in ('engine', '__engine'):
        return True
    if len(call.args) >= 2 and isinstance(call.args[1], ast.Attribute) and \
            call.args[1].attr == 'engine':
        return True
    return False


def _expression_guard(repo, fi, call):
    """Is the call under `isinstance(<callee>, expressions.<X>)`?"""
    want = model.norm(call.func)
    n = call
    while n is not None:
        p = getattr(n, '_parent', None)
        if isinstance(p, ast.If) and any(n is s for s in p.body):
            for c in ast.walk(p.test):
                if isinstance(c, ast.Call) and isinstance(
                        c.func, ast.Name) and c.func.id == 'isinstance' \
                        and len(c.args) == 2 and \
                        model.norm(c.args[0]) == want:
                    d = repo.resolve(fi.module, c.args[1],
                                     model.scope_locals(fi)) or ''
                    if d.startswith('yaql.language.expressions.'):
                        return True
        n = p
    return False


def data_roots(repo, uni, fi):
    """Names of parameters that hold expression data in fi (payload data
    parameters; `value` of smart-type check/convert; own parameters of
    functions nested in those)."""
    roots = set()
    nested = set()
    data_ancestor = False
    f = fi
    while f is not None:
        ovs = uni.payload_ov.get(f.key)
        if ovs:
            data_ancestor = True
            for p in ovs[0].params:
                if not p.type.hidden and not p.type.lazy:
                    roots.add(p.name)
        elif f.is_method and f.name in ('convert', 'check') and \
                f.module.name == 'yaql.language.yaqltypes':
            data_ancestor = True
            ps = f.params()
            if len(ps) > 1:
                roots.add(ps[1])
        elif f.parent_func is not None:
            for n in f.params():
                if n not in unimod.CTX_NAMES and n not in \
                        unimod.HIDDEN_NAMES and n != 'self':
                    nested.add(n)
        f = f.parent_func
    # the parameters of a nested function hold data only when the function
    # is nested in something that receives data
    if data_ancestor:
        roots |= nested
    return roots


def check_data_calls(repo, rep, uni):
    n = 0
    scope = []
    for fi, role in uni.evaluation_time():
        mod = fi.module.name
        if mod.startswith('yaql.standard_library') or mod in (
                'yaql.language.yaqltypes', 'yaql.language.utils'):
            scope.append(fi)
    # 1. which helper parameters get called
    helper_calls = {}     # helper key -> {param name: call node}
    direct = []
    for fi in scope:
        env = uni.env(fi)
        roots = data_roots(repo, uni, fi)
        own = set(fi.params())
        for call in model.calls_in(fi.node, shallow=True):
            f = call.func
            if isinstance(f, ast.Attribute):
                continue   # fixed member name; dynamic names are R07a
            d = repo.resolve(fi.module, f, model.scope_locals(fi))
            if d is not None:
                continue
            if _eval_signature(fi, call) or _dispatch_signature(call) or \
                    _expression_guard(repo, fi, call):
                continue
            if isinstance(f, ast.Name):
                # delegate = context(name, engine, ...); delegate(...)
                bound = norm.single_assignments(fi.node).get(f.id)
                if isinstance(bound, ast.Call) and _dispatch_signature(
                        bound):
                    continue
            tags = env.ev(f).tags
            hit = [t for t in tags if t[0] in ('param', 'derived')]
            if not hit:
                continue
            if any(t[1] in roots for t in hit):
                direct.append((fi, call, hit))
            elif isinstance(f, ast.Name) and f.id in own:
                helper_calls.setdefault(fi.key, {})[f.id] = call
    # 2. data handed to a helper parameter that the helper calls
    for fi in scope:
        env = uni.env(fi)
        roots = data_roots(repo, uni, fi)
        for call in model.calls_in(fi.node, shallow=True):
            d = repo.resolve(fi.module, call.func, model.scope_locals(fi))
            tgt = repo.lookup(d) if d else None
            if tgt is None and d is None and isinstance(
                    call.func, ast.Attribute) and isinstance(
                    call.func.value, ast.Name) and \
                    call.func.value.id == 'self' and fi.cls is not None:
                tgt = repo.find_method(fi.cls, call.func.attr)
            if not isinstance(tgt, model.FuncInfo) or \
                    tgt.key not in helper_calls:
                continue
            names = tgt.params()
            if tgt.is_method:
                names = names[1:]
            amap = {}
            for i, a in enumerate(call.args):
                if i < len(names) and not isinstance(a, ast.Starred):
                    amap[names[i]] = a
            for k in call.keywords:
                if k.arg:
                    amap[k.arg] = k.value
            for q, inner in helper_calls[tgt.key].items():
                a = amap.get(q)
                if a is None:
                    continue
                tags = env.ev(a).tags
                hit = [t for t in tags if t[0] in ('param', 'derived')
                       and t[1] in roots]
                if hit:
                    direct.append((tgt, inner, hit))
    seen = set()
    for fi, call, hit in direct:
        nm = model.norm(call.func)
        key = (fi.key, nm)
        if (key, call.lineno) in seen:
            continue
        seen.add((key, call.lineno))
        n += 1
        site = '%s/call-of[%s]' % (fi.key, nm)
        if key in DATA_CALL_OWNERS:
            ok = True
            why = 'listed: ' + DATA_CALL_OWNERS[key]
            if fi.key.endswith('system:call'):
                ovs = uni.payload_ov.get(fi.key, [])
                ok = bool(ovs) and all('delegates' in o.condition
                                       for o in ovs)
                if not ok:
                    why = '#call must be registered only under ' \
                          '`if delegates:`'
            rep.ob('R07f', site, ok, why, loc=fi.module.loc(call),
                   construct=model.norm(call))
            continue
        rep.ob('R07f', site, False,
               'evaluation-time code calls a value that comes from '
               'expression data (`%s`, origin %s): a host callable found in '
               'the data is invoked without having been registered or '
               'yaqlized' % (nm, sorted(hit)), loc=fi.module.loc(call),
               construct=model.norm(call))
    rep.floor('calls of data values examined', n, 3)


def check_yaqlize_keeps_existing_policy(repo, rep):
    """R07h (second clause): yaqlize() installs settings only on an object
    for which the access layer would find none -- the same lookup as
    get_yaqlization_settings (attribute lookup, which sees the settings of
    the object's class).  Auto-yaqlization calls yaqlize() on every result;
    if that call can install fresh permissive settings on an instance whose
    class carries a policy, the policy is gone for that instance."""
    ym = repo.module('yaql.yaqlization')
    n = 0
    for fi in ym.functions.values():
        for c in model.calls_in(fi.node, shallow=True):
            if not (isinstance(c.func, ast.Name) and c.func.id == 'setattr'
                    and len(c.args) == 3):
                continue
            lit = const_str(repo, fi, c.args[1])
            if lit != '__yaqlization__':
                continue
            n += 1
            target = model.norm(c.args[0])
            ok = False
            seen = []
            for e, pol in norm.guards(c, fi.node):
                e2 = norm.inline_simple_calls(repo, ym, e)
                for at, p2 in norm.atoms(e2, pol):
                    seen.append(('' if p2 else 'not ') + model.norm(at))
                    # not hasattr(x, ATTR)
                    if isinstance(at, ast.Call) and isinstance(
                            at.func, ast.Name) and at.func.id == 'hasattr' \
                            and len(at.args) == 2 and model.norm(
                            at.args[0]) == target and const_str(
                            repo, fi, at.args[1]) == '__yaqlization__' \
                            and p2 is False:
                        ok = True
                    # getattr(x, ATTR, None) is None /
                    # get_yaqlization_settings(x) is None
                    if isinstance(at, ast.Compare) and len(at.ops) == 1 \
                            and isinstance(at.ops[0], ast.Is) and \
                            isinstance(at.comparators[0], ast.Constant) \
                            and at.comparators[0].value is None and \
                            p2 is True and isinstance(at.left, ast.Call):
                        f = at.left
                        nm = model.norm(f.func)
                        if nm in ('getattr', 'get_yaqlization_settings') \
                                and f.args and model.norm(
                                f.args[0]) == target:
                            ok = True
            rep.ob('R07h', '%s/installs-only-when-unset' % fi.key, ok,
                   'yaqlize() must leave an object alone when attribute '
                   'lookup already finds yaqlization settings for it '
                   '(`not hasattr(obj, \'__yaqlization__\')`): the guard '
                   'here is %s, so auto-yaqlization can overwrite the '
                   'policy an instance inherits from its class with fresh, '
                   'permissive settings' % (seen or 'absent'),
                   loc=ym.loc(c), construct=model.norm(c)[:100])
    rep.floor('settings installation sites in yaqlization', n, 1)


def check_yaqlization_grants(repo, rep, uni):
    """R07h: evaluation-time code grants yaqlization only to the very
    object a yaqlized member returned (auto_yaqlize_result), never to its
    class or to anything else."""
    n = 0
    for fi, role in uni.evaluation_time():
        for call in model.calls_in(fi.node, shallow=True):
            d = repo.resolve(fi.module, call.func, model.scope_locals(fi))
            grant = d in ('yaql.yaqlization.yaqlize',
                          'yaql.yaqlization.build_yaqlization_settings')
            if d in ('builtins.setattr',) and len(call.args) >= 2:
                lit = const_str(repo, fi, call.args[1])
                grant = lit == '__yaqlization__'
            if not grant:
                continue
            n += 1
            site = '%s/grants-yaqlization' % fi.key
            ok = fi.key == YZ + ':_auto_yaqlize' and call.args and \
                isinstance(call.args[0], ast.Name) and \
                call.args[0].id in fi.params()[:1]
            rep.ob('R07h', site, ok,
                   'evaluation-time code yaqlizes `%s`: only the result '
                   'object of a member of an auto_yaqlize_result object may '
                   'be yaqlized during evaluation (and only that object -- '
                   'not its class, which would expose every other instance '
                   'in the data)' % (model.norm(call.args[0])
                                     if call.args else '?'),
                   loc=fi.module.loc(call), construct=model.norm(call))
    rep.floor('yaqlization grants in evaluation-time code', n, 1)


# -- R07g ----------------------------------------------------------------------
def check_side_doors(repo, rep):
    sysm = repo.module('yaql.standard_library.system')
    cf = sysm.func('call_func')
    ok = False
    for call in model.calls_in(cf.node):
        for k in call.keywords:
            if k.arg is None:     # **expr
                v = norm.subst_locals(cf.node, k.value, only_pure=False)
                ok = isinstance(v, ast.Call) and repo.resolve(
                    sysm, v.func, model.scope_locals(cf)) == \
                    'yaql.language.utils.filter_parameters_dict'
    rep.ob('R07g', cf.key + '/kwargs-filtered', ok,
           'call() must pass the expression-supplied keyword dict through '
           'utils.filter_parameters_dict (keyword names that are not YAQL '
           'keywords, e.g. dunder names, are dropped)', loc=sysm.loc(cf.node))
    gp = sysm.func('get_property')
    ok = False

    def prefixed(v):
        if isinstance(v, ast.Call) and isinstance(
                v.func, ast.Attribute) and v.func.attr == 'format' and \
                isinstance(v.func.value, ast.Constant) and str(
                v.func.value.value).startswith('#property#'):
            return True
        if isinstance(v, ast.BinOp) and isinstance(v.op, (ast.Add,
                                                          ast.Mod)) and \
                isinstance(v.left, ast.Constant) and str(
                v.left.value).startswith('#property#'):
            return True
        if isinstance(v, ast.JoinedStr) and v.values and isinstance(
                v.values[0], ast.Constant) and str(
                v.values[0].value).startswith('#property#'):
            return True
        return False
    fparam = gp.params()[0]
    disp = [c for c in model.calls_in(gp.node, shallow=True)
            if isinstance(c.func, ast.Name) and c.func.id == fparam]
    ok = bool(disp) and all(
        c.args and prefixed(norm.subst_locals(gp.node, c.args[0],
                                              only_pure=False))
        for c in disp)
    rep.ob('R07g', gp.key + '/constant-prefix', ok,
           'the fallback `.` on plain objects may only dispatch to '
           'registered functions named #property#<name>',
           loc=sysm.loc(gp.node))
    lexm = repo.module('yaql.language.lexer')
    kw = lexm.func('Lexer.t_KEYWORD_STRING')
    from sa import grammar as _g
    doc = _g.effective_token_regex(kw.name)
    ok = False
    try:
        import re._parser as sre
        from re._constants import ASSERT_NOT, LITERAL
        tree = sre.parse(doc, re.UNICODE | re.VERBOSE)
        first = tree[0]
        if first[0] is ASSERT_NOT and first[1][0] == 1:
            lits = [a for o, a in first[1][1] if o is LITERAL]
            ok = lits == [ord('_'), ord('_')] and len(first[1][1]) == 2
    except Exception as e:
        rep.note('keyword regex not parsable: %r' % (e,))
    rep.ob('R07g', kw.key + '/no-dunder-keywords', ok,
           'the keyword token regex must begin with the negative '
           'look-ahead (?!__): a dunder name can then never be written as '
           'a member name or keyword argument', loc=lexm.loc(kw.node),
           construct=doc.strip())
    ut = repo.module('yaql.language.utils')
    ik = ut.func('is_keyword')
    src = ut.constants.get('KEYWORD_REGEX')
    ok = src is not None and 't_KEYWORD_STRING' in model.norm(src)
    if src is not None and not ok:
        # ... or a constant of the lexer module whose text IS that rule's
        # regular expression
        for x in ast.walk(src):
            d = repo.resolve(ut, x) if isinstance(
                x, (ast.Attribute, ast.Name)) else None
            tgt = repo.lookup(d) if d else None
            if isinstance(tgt, tuple) and tgt and tgt[0] == 'const' and \
                    isinstance(tgt[2], ast.Constant) and isinstance(
                        tgt[2].value, str) and \
                    tgt[2].value.strip() == doc.strip():
                ok = True
    rep.ob('R07g', ik.key + '/same-regex', ok,
           'utils.is_keyword must use the lexer\'s keyword regex',
           loc=ut.loc(ik.node))


def check_remapped_members_are_blacklisted(repo, rep):
    """R07j: a member published under another name (attribute_remapping)
    must not stay reachable under its own name.  build_yaqlization_settings
    is applied abstractly to a remapping with both forms of target -- the
    plain name and the (name, keyword-renaming) pair: the blacklist of the
    resulting settings contains every target name when
    blacklist_remapped_attributes is on, and the host's own blacklist
    either way."""
    from sa import absint
    mod = repo.module('yaql.yaqlization')
    fi = mod.functions.get('build_yaqlization_settings')
    if fi is None:
        raise AnalysisError('anchor vanished: build_yaqlization_settings')

    def inst(v, cls_expr):
        names = [model.norm(x).rsplit('.', 1)[-1] for x in (
            cls_expr.elts if isinstance(cls_expr, ast.Tuple)
            else [cls_expr])]
        return type(v).__name__ in names
    remap = {'owner': 'internal_owner',
             'run': ('execute', {'cmd': 'command'}),
             'stop': ['halt', {}]}
    targets = {'internal_owner', 'execute', 'halt'}
    for on in (True, False):
        it = absint.Interp(repo, mod, None, inst)
        args = {'blacklist': ['hidden'], 'attribute_remapping': remap,
                'blacklist_remapped_attributes': on}
        try:
            out = it.run(fi.node, {k: v for k, v in args.items()
                                   if k in fi.params()})
        except (absint.Unsupported, absint._Raise, RecursionError,
                TypeError) as e:
            rep.note('R07j: build_yaqlization_settings not interpretable '
                     '(%r)' % (e,))
            return
        st = out[1] if out[0] == 'return' and isinstance(out[1], dict) \
            else {}
        bl = st.get('blacklist')
        bl = set(bl) if isinstance(bl, (set, frozenset, list, tuple)) \
            else None
        want = {'hidden'} | (targets if on else set())
        ok = bl is not None and want <= bl and (on or not (targets & bl))
        rep.ob('R07j', '%s/blacklist[remapped=%s]' % (fi.key, on), ok,
               'with blacklist_remapped_attributes=%s and the remapping %r '
               'the settings blacklist %s; expected %s: the real member '
               'behind an alias stays reachable under its own name' % (
                   on, remap, sorted(bl) if bl is not None else out,
                   sorted(want)), loc=mod.loc(fi.node))


def run(repo, rep):
    rep.rule('R07a', 'REFLECTION-SINKS are enumerated and owned: dynamic '
             'getattr/setattr/hasattr, vars/dir/eval/exec/import/..., '
             'dunder reads, subscripts on arbitrary host objects, format '
             'with data templates occur only in the owner table')
    rep.rule('R07b', 'VALIDATE-DOMINATES-ACCESS: _validate_name(raw name, '
             'settings of the same object) dominates each owned sink; the '
             'sink\'s name derives only from the raw name or its remapping')
    rep.rule('R07c', 'CAPABILITY-TYPED: the sink\'s object parameter is '
             'declared Yaqlized(<matching capability>=True)')
    rep.rule('R07d', 'UNDERSCORE-FIRST: in _validate_name the underscore '
             'test dominates every normal exit and raises; whitelist miss '
             'and blacklist hit raise')
    rep.rule('R07e', 'NOT-YAQLIZED-IS-REJECTED: Yaqlized\'s checker returns '
             'False for objects without settings before any accept')
    rep.rule('R07f', 'CALLS-OF-DATA: values that come from expression data '
             'are called only at the listed sites')
    rep.rule('R07i', 'CLASSIFIERS-ARE-TYPE-TESTS: utils.is_iterable / '
             'is_sequence / is_iterator / is_mutable only apply isinstance / '
             'type() to the value they classify')
    rep.rule('R07h', 'YAQLIZATION-GRANTS: during evaluation only '
             '_auto_yaqlize may yaqlize, and only its own `value` object')
    rep.rule('R07g', 'side doors: call() filters keyword names; property '
             'fallback has a constant prefix; keyword tokens cannot start '
             'with __')
    rep.trusted += ['host-supplied callables are host code',
                    'whitelist/blacklist entry matching semantics are '
                    'values, not decided']
    rep.explanation = (
        'Every evaluation-time function of the library is scanned for '
        'reflective sinks; sinks outside the three yaqlized overloads are '
        'violations. For the owned sinks name validation must dominate the '
        'access on the statement CFG, be applied to the raw name with the '
        'object\'s own settings, and the object parameter must be typed '
        'with the matching Yaqlized capability.')
    rep.rule('R07j', 'REMAPPED-MEMBERS-ARE-BLACKLISTED: every target of '
             'attribute_remapping, in either form, is blacklisted under its '
             'own name')
    check_remapped_members_are_blacklisted(repo, rep)
    uni = unimod.Universe(repo)
    nfun = 0
    nsinks = 0
    owned_seen = set()
    funcs = list(uni.evaluation_time())
    # positive control: the removed `format` function (bug 2048114)
    m = c09.load_fixture(repo, 'c07_fixture.py')
    repo.modules[m.name] = m
    try:
        flagged = set()
        for f in m.functions.values():
            for kind, node, detail in find_sinks(repo, uni, f):
                flagged.add(f.name)
    finally:
        del repo.modules[m.name]
        for f in m.functions.values():
            uni._envs.pop(f.key, None)
    want = {f.name for f in m.functions.values()
            if f.name.startswith('bad_')}
    clean = {f.name for f in m.functions.values()
             if f.name.startswith('ok_')}
    rep.ob('R07a', 'fixtures/c07_fixture.py/positive-control',
           want <= flagged and not (clean & flagged),
           'positive control: expected %s flagged and %s silent; flagged %s'
           % (sorted(want), sorted(clean), sorted(flagged)))
    for fi, role in funcs:
        mod = fi.module.name
        if mod in ('yaql.yaqlization',) and fi.name in (
                'get_yaqlization_settings', 'is_yaqlized'):
            pass
        if mod.startswith('yaql.language.lexer') or \
                mod.startswith('yaql.language.parser'):
            continue
        nfun += 1
        sinks = find_sinks(repo, uni, fi)
        if not sinks:
            rep.ob('R07a', fi.key, True, nontrivial=False)
            continue
        for kind, node, detail in sinks:
            nsinks += 1
            site = '%s/%s' % (fi.key, kind)
            if kind == 'dunder' and (fi.key, detail) in DUNDER_OWNERS:
                rep.ob('R07a', site, True, 'listed: ' + DUNDER_OWNERS[
                    (fi.key, detail)], loc=fi.module.loc(node))
                continue
            if (fi.key, kind) in OWNERS:
                owned_seen.add((fi.key, kind))
                rep.ob('R07a', site, True, 'owned sink: ' + OWNERS[
                    (fi.key, kind)], loc=fi.module.loc(node),
                    construct=model.norm(node))
                check_validation(repo, rep, uni, fi, kind, node)
                check_capability(repo, rep, uni, fi, kind, node)
                continue
            rep.ob('R07a', site, False,
                   'reflective access outside the yaqlized overloads: %s. '
                   'An expression can use it to reach members of host '
                   'objects that were never granted' % detail,
                   loc=fi.module.loc(node), construct=model.norm(node)[:160])
    for k in OWNERS:
        if k not in owned_seen:
            rep.error('anchor vanished: owned sink %s/%s not found' % k)
    check_validate_name(repo, rep)
    check_yaqlized_type(repo, rep)
    check_classifiers_are_type_tests(repo, rep)
    check_data_calls(repo, rep, uni)
    check_yaqlization_grants(repo, rep, uni)
    check_yaqlize_keeps_existing_policy(repo, rep)
    check_side_doors(repo, rep)
    rep.count(functions_scanned=nfun, sinks_found=nsinks,
              overloads=len(uni.reg.overloads))
    rep.floor('evaluation-time functions scanned', nfun, 480)
    rep.floor('registered overloads', len(uni.reg.overloads), 280)
