"""C02 -- the operator table decides the parse tree.

Translation validation: operator table (source) -> generated grammar and
precedence -> LALR automaton (target), per configuration.  The automaton is
queried; no expression text is ever lexed or parsed.
"""
import ast

from sa import grammar
from sa import model
from sa.model import AnalysisError

LEVEL = 'translation_validation'
TITLE = 'operator table decides the parse tree (LALR conformance)'

BIN_L = 'BINARY_LEFT_ASSOCIATIVE'
BIN_R = 'BINARY_RIGHT_ASSOCIATIVE'
PRE = 'PREFIX_UNARY'
SUF = 'SUFFIX_UNARY'
NVP = 'NAME_VALUE_PAIR'


def configurations(tier):
    m = grammar.load_repo_package()
    yaql = m['yaql']
    legacy = m['legacy']
    F = yaql.YaqlFactory
    cfgs = [('default', lambda: F()),
            ('legacy', lambda: legacy.YaqlFactory())]
    def ins0(*calls):
        def mk():
            f = F()
            for c in calls:
                f.insert_operator(*c)
            return f
        mk.calls = calls
        mk.base = F
        return mk
    if tier != 'thorough':
        # a few customised tables are cheap enough for every run; the
        # pairs differ ONLY in grouping / associativity (same symbols, same
        # order), which is what a cache keyed on the generated rules, or a
        # positioning slip in insert_operator, would confuse
        cfgs.append(('custom:right-group-after-and+prefix-in-mul', ins0(
            ('and', True, '^^', BIN_R, True), ('*', True, '!', PRE, False))))
        cfgs.append(('custom:left-group-after-and+prefix-in-mul', ins0(
            ('and', True, '^^', BIN_L, True), ('*', True, '!', PRE, False))))
        cfgs.append(('custom:prefix-in-right-group+suffix-group', ins0(
            ('->', True, '^^', BIN_R, True), ('^^', True, '!', PRE, False),
            ('.', True, '!!', SUF, True))))
        cfgs.append(('custom:xor-joins-or-group', ins0(
            ('or', True, 'xor', BIN_L, False))))
        cfgs.append(('custom:xor-own-group-after-or', ins0(
            ('or', True, 'xor', BIN_L, True))))
        # a group whose FIRST member is a prefix operator and that also
        # holds a right-associative binary one needs two precedence rows
        cfgs.append(('custom:right-op-joins-sign-group', ins0(
            ('-', False, '^', BIN_R, False))))
        return cfgs
    cfgs.append(('delegates', lambda: F(allow_delegates=True)))
    cfgs.append(('no-keyword-operator', lambda: F(keyword_operator=None)))
    cfgs.append(('custom-keyword-operator', lambda: F(keyword_operator='::')))
    cfgs.append(('legacy+delegates',
                 lambda: legacy.YaqlFactory(allow_delegates=True)))

    def ins(*calls):
        def mk():
            f = F()
            for c in calls:
                f.insert_operator(*c)
            return f
        mk.calls = calls
        mk.base = F
        return mk
    for anchor in ('.', '*', 'or', '->', '+', '='):
        cfgs.append(('custom:right-group-after-%s' % anchor,
                     ins((anchor, True, '^^', BIN_R, True))))
    cfgs.append(('custom:left-group-after-not',
                 ins(('not', False, '^^', BIN_L, True))))
    cfgs.append(('custom:prefix-in-mul-group',
                 ins(('*', True, '!', PRE, False))))
    cfgs.append(('custom:prefix-new-group-after-and',
                 ins(('and', True, '!', PRE, True))))
    cfgs.append(('custom:prefix-at-0', ins((None, True, '~', PRE, True))))
    cfgs.append(('custom:suffix-group-after-dot',
                 ins(('.', True, '!', SUF, True))))
    cfgs.append(('custom:suffix-group-after-or',
                 ins(('or', True, '!', SUF, True))))
    cfgs.append(('custom:word-op-in-or-group',
                 ins(('or', True, 'xor', BIN_L, False))))
    cfgs.append(('custom:star-also-prefix',
                 ins(('+', False, '*', PRE, False))))
    cfgs.append(('custom:alias-op', ins(('=', True, '==', BIN_L, False,
                                         'equal'))))
    cfgs.append(('custom:second-right-op-in-arrow-group',
                 ins(('->', True, '|>', BIN_R, False))))
    cfgs.append(('custom:prefix-in-right-group',
                 ins(('->', True, '^^', BIN_R, True),
                     ('^^', True, '!', PRE, False))))
    cfgs.append(('custom:left-group-after-and',
                 ins(('and', True, '^^', BIN_L, True))))
    cfgs.append(('custom:word-op-own-group-after-or',
                 ins(('or', True, 'xor', BIN_L, True))))
    cfgs.append(('custom:second-op-new-group-after-arrow',
                 ins(('->', True, '|>', BIN_R, True))))
    cfgs.append(('custom:right-op-joins-sign-group',
                 ins(('-', False, '^', BIN_R, False))))
    cfgs.append(('custom:right-op-joins-new-prefix-group',
                 ins(('*', True, '~', PRE, True),
                     ('~', False, '**', BIN_R, False))))
    cfgs.append(('custom:two-new-groups',
                 ins(('and', True, '^^', BIN_R, True),
                     ('.', True, '!', SUF, True),
                     ('or', True, 'xor', BIN_L, False))))
    return cfgs


def expected_table(fac):
    """Read the operator list independently of _build_operator_table."""
    grp = 1
    binary = {}   # symbol -> group
    unary = {}    # symbol -> (kind, group)
    assoc = {}    # group -> 'left' | 'right'
    kinds = {}    # group -> set of record kinds
    aliases = {}
    for rec in fac.operators:
        if not rec:
            grp += 1
            continue
        sym, typ = rec[0], rec[1]
        if typ == NVP:
            continue
        kinds.setdefault(grp, set()).add(typ)
        if typ in (BIN_L, BIN_R):
            binary[sym] = grp
            assoc.setdefault(grp, 'left' if typ == BIN_L else 'right')
        elif typ == PRE:
            unary[sym] = ('prefix', grp)
        elif typ == SUF:
            unary[sym] = ('suffix', grp)
        else:
            raise AnalysisError('unknown operator type %r' % (typ,))
        if len(rec) > 2 and rec[2]:
            aliases[sym] = rec[2]
    inhomogeneous = []
    for g, ks in kinds.items():
        if BIN_L in ks and BIN_R in ks:
            inhomogeneous.append(g)
        if SUF in ks and len(ks) > 1:
            inhomogeneous.append(g)
    return binary, unary, assoc, aliases, inhomogeneous


def legacy_rows(rep, label, fac, binary, assoc):
    """The legacy table's documented shape: no keyword operator, and `=>`
    a left-associative binary operator looser than `or`, tighter than `->`.
    """
    nvp = [r for r in fac.operators if r and r[1] == NVP]
    rep.ob('R02a', '%s/no-name-value-operator' % label, not nvp,
           'legacy table must not have a NAME_VALUE_PAIR operator')
    ok = all(s in binary for s in ('or', '=>', '->')) and \
        binary.get('or', 0) < binary.get('=>', 0) < binary.get('->', 0) and \
        assoc.get(binary.get('=>')) == 'left'
    rep.ob('R02a', '%s/tuple-operator-row' % label, ok,
           "legacy: '=>' must be a left-associative binary operator in a "
           "group of its own between 'or' and '->'; groups: or=%s =>=%s "
           "->=%s" % (binary.get('or'), binary.get('=>'), binary.get('->')),
           loc='yaql/legacy.py:0')


def check_config(rep, label, fac):
    b = grammar.build(fac)
    binary, unary, assoc, aliases, inhom = expected_table(fac)
    if label.startswith('legacy'):
        legacy_rows(rep, label, fac, binary, assoc)
    if inhom:
        rep.note('%s: groups %s not homogeneous, outside the property' % (
            label, inhom))
        return 0
    g = b.grammar
    lr = b.table
    tok2sym = {}
    for sym, (up, bp, name, alias) in b.ops.operators.items():
        tok2sym[name] = sym
    optoks = set(tok2sym)
    # look-ahead tokens that continue a value: binary ops (INDEXER for '[]')
    # and suffix ops; '{}' has no infix production
    infix_la = {}
    for tok, sym in tok2sym.items():
        if sym in binary and sym != '{}':
            infix_la[tok] = ('binary', binary[sym])
        if sym in unary and unary[sym][0] == 'suffix':
            infix_la[tok] = ('suffix', unary[sym][1])
    n_ob = 0
    items = 0
    for st, I in enumerate(b.states):
        for it in I:
            if it.prod[-1] != '.':
                continue
            prod = g.Productions[it.number]
            syms = prod.prod
            if len(syms) == 3 and syms[0] == 'value' and syms[2] == 'value' \
                    and syms[1] in optoks and tok2sym[syms[1]] in binary:
                sym = tok2sym[syms[1]]
                lvl = binary[sym]
                what = 'binary %s' % sym
            elif len(syms) == 2 and syms[0] in optoks and \
                    syms[1] == 'value' and tok2sym[syms[0]] in unary:
                sym = tok2sym[syms[0]]
                lvl = unary[sym][1]
                what = 'prefix %s' % sym
            else:
                continue
            items += 1
            for la in sorted(infix_la):
                kind, l2 = infix_la[la]
                act = lr.lr_action[st].get(la)
                site = '%s/state-item[%s]/la[%s]' % (
                    label, what, tok2sym[la])
                if lvl < l2:
                    exp = 'reduce'
                elif lvl > l2:
                    exp = 'shift'
                else:
                    exp = 'reduce' if assoc.get(lvl, 'left') == 'left' \
                        else 'shift'
                if act is None:
                    got = 'error'
                elif act > 0:
                    got = 'shift'
                elif act < 0:
                    got = 'reduce' if -act == it.number else \
                        'reduce-other(%d)' % -act
                else:
                    got = 'accept'
                n_ob += 1
                rep.ob('R02a', site, got == exp,
                       'after completed %s (group %d) with look-ahead %s '
                       '(group %d, %s): table dictates %s, automaton does %s'
                       % (what, lvl, tok2sym[la], l2,
                          assoc.get(l2, kind), exp, got),
                       loc='yaql/language/parser.py:0',
                       construct='state %d: %s' % (st, prod))
    # R02b conflicts
    rr = list(lr.rr_conflicts)
    rep.ob('R02b', '%s/reduce-reduce' % label, not rr,
           'reduce/reduce conflicts: %s' % (rr,))
    allowed_sr = set()
    if getattr(fac, 'allow_delegates', False):
        allowed_sr.add('(')   # value '(' args ')': call binds to the value
    for st, tok, res in lr.sr_conflicts:
        ok = tok in allowed_sr and res == 'shift'
        rep.ob('R02b', '%s/shift-reduce[%s]' % (label, tok), ok,
               'default-resolved shift/reduce conflict in state %d on %r '
               '(resolved as %s) is not in the reviewed table' % (
                   st, tok, res))
    rep.ob('R02b', '%s/undefined-symbols' % label, not b.undefined,
           'undefined grammar symbols: %s' % (b.undefined,))
    # R02c exhaustive
    prods = [p.prod for p in g.Productions[1:]]
    for sym, (up, bp, name, alias) in b.ops.operators.items():
        if sym == '[]':
            ok = any(p == ('value', 'INDEXER', 'args', ']') for p in
                     prods) and any(p[:1] == ('INDEXER',) for p in prods)
            rep.ob('R02c', '%s/symbol[[]]' % label, ok and name == 'INDEXER',
                   'index/list productions for [] missing')
            continue
        if sym == '{}':
            ok = any(p[:1] == ('MAP',) for p in prods)
            rep.ob('R02c', '%s/symbol[{}]' % label, ok and name == 'MAP',
                   'map production for {} missing')
            continue
        rep.ob('R02c', '%s/token[%s]' % (label, sym),
               name in b.lexer_rules.tokens and
               getattr(b.lexer_rules, 't_' + name, None) is not None,
               'operator %r has no lexer token' % sym)
        if sym in binary:
            rep.ob('R02c', '%s/binary-production[%s]' % (label, sym),
                   ('value', name, 'value') in prods,
                   'binary operator %r has no production value OP value'
                   % sym)
        else:
            rep.ob('R02c', '%s/no-binary-production[%s]' % (label, sym),
                   ('value', name, 'value') not in prods,
                   'non-binary operator %r has a binary production' % sym)
        if sym in unary:
            want = (name, 'value') if unary[sym][0] == 'prefix' else (
                'value', name)
            rep.ob('R02c', '%s/unary-production[%s]' % (label, sym),
                   want in prods,
                   '%s operator %r has no production %s' % (
                       unary[sym][0], sym, ' '.join(want)))
        else:
            rep.ob('R02c', '%s/no-unary-production[%s]' % (label, sym),
                   (name, 'value') not in prods and
                   ('value', name) not in prods,
                   'operator %r is not unary in the table but has a unary '
                   'production' % sym)
        rep.ob('R02c', '%s/alias[%s]' % (label, sym),
               b.parser_module._aliases.get(name) == aliases.get(sym),
               'alias of %r: table says %r, parser holds %r' % (
                   sym, aliases.get(sym),
                   b.parser_module._aliases.get(name)))
    # R02d longest-first in the master alternation
    order = grammar.lexer_rule_order(b)
    pos = {}
    for i, (tok, func) in enumerate(order):
        pos.setdefault(tok, i)
    spell = {}
    for sym, (up, bp, name, alias) in b.ops.operators.items():
        if sym not in ('[]', '{}'):
            spell[name] = sym
    if b.ops.name_value_op:
        spell['MAPPING'] = b.ops.name_value_op
    if '[]' in b.ops.operators:
        spell['INDEXER'] = '['
    if '{}' in b.ops.operators:
        spell['MAP'] = '{'
    for a, sa_ in sorted(spell.items()):
        for c, sc in sorted(spell.items()):
            if a != c and sc.startswith(sa_) and len(sc) > len(sa_):
                ok = a in pos and c in pos and pos[c] < pos[a]
                rep.ob('R02d', '%s/longest-first[%s<%s]' % (label, sa_, sc),
                       ok, 'token for %r must be tried before the token for '
                       'its prefix %r in the lexer master regex' % (sc, sa_))
    # word operators are reached through KEYWORD_STRING, which must precede
    # every string rule
    first_string = min([i for i, (t, f) in enumerate(order) if f is None]
                       or [len(order)])
    check_created_engine(rep, label, fac, b)
    kw = pos.get('KEYWORD_STRING')
    words = [s for s in spell.values() if s[:1].isalpha() or s[:1] == '_']
    rep.ob('R02d', '%s/keyword-rule-before-string-rules' % label,
           kw is not None and kw < first_string,
           'KEYWORD_STRING function rule must precede all operator string '
           'rules (word operators %s are re-typed there)' % words)
    return n_ob, items, len(b.states), len(g.Productions)


def groups_of(operators):
    """[set((symbol, type)), ...] in table order (NAME_VALUE_PAIR ignored)."""
    out = [set()]
    for rec in operators:
        if not rec:
            out.append(set())
        elif rec[1] != NVP:
            out[-1].add((rec[0], rec[1]))
    return [g for g in out if g]


def model_insert(groups, existing, existing_binary, new, typ, create_group):
    """Reference model of YaqlFactory.insert_operator: the new operator
    joins the group of the existing one, or forms a new group immediately
    after it; with no existing operator it goes to the very front."""
    groups = [set(g) for g in groups]
    if existing is None:
        if create_group:
            return [{(new, typ)}] + groups
        groups[0].add((new, typ))
        return groups
    binary = (BIN_L, BIN_R)
    for i, g in enumerate(groups):
        for sym, t in g:
            if sym == existing and ((t in binary) == bool(existing_binary)):
                if create_group:
                    return groups[:i + 1] + [{(new, typ)}] + groups[i + 1:]
                g.add((new, typ))
                return groups
    raise AnalysisError('model_insert: %r not found' % (existing,))


def check_insert_position(rep, label, mk, fac):
    calls = getattr(mk, 'calls', None)
    if not calls:
        return
    base = mk.base()
    want = groups_of(base.operators)
    for c in calls:
        want = model_insert(want, c[0], c[1], c[2], c[3], c[4])
    got = groups_of(fac.operators)
    rep.ob('R02g', '%s/insert-position' % label, got == want,
           'insert_operator%s: the operator must join the group of the '
           'existing operator or, with create_group, form a new group '
           'immediately after it. Expected groups %s, table has %s' % (
               list(calls), [sorted(s for s, t in g) for g in want],
               [sorted(s for s, t in g) for g in got]),
           loc='yaql/language/factory.py:0')


def check_created_engine(rep, label, fac, b):
    """R02f: the engine create() hands out carries exactly the tables
    generated from THIS factory's operator list."""
    try:
        engine = fac.create()
    except Exception as e:
        rep.ob('R02f', '%s/create' % label, False,
               'YaqlFactory.create() failed: %r' % (e,))
        return
    p = engine.parser
    ref_prod = [str(x) for x in b.grammar.Productions]
    got_prod = [str(x) for x in p.productions]
    same = got_prod == ref_prod and p.action == b.table.lr_action and \
        p.goto == b.table.lr_goto
    diff = ''
    if not same:
        if got_prod != ref_prod:
            diff = 'productions differ'
        else:
            for st in b.table.lr_action:
                if p.action.get(st) != b.table.lr_action[st]:
                    a, r = p.action.get(st) or {}, b.table.lr_action[st]
                    keys = [k for k in set(a) | set(r) if a.get(k) !=
                            r.get(k)]
                    diff = 'state %d differs on look-ahead %s' % (
                        st, sorted(keys)[:4])
                    break
    rep.ob('R02f', '%s/created-engine-tables' % label, same,
           'the parser tables of the engine returned by create() are not '
           'the tables generated from this factory\'s operator list (%s): '
           'the engine parses with another table\'s precedence' % diff,
           loc='yaql/language/factory.py:0')
    ref_lex = [r.pattern for r, _ in b.lexobj.lexstatere['INITIAL']]
    got_lex = [r.pattern for r, _ in engine.lexer.lexstatere['INITIAL']]
    rep.ob('R02f', '%s/created-engine-lexer' % label, ref_lex == got_lex,
           'the lexer of the engine returned by create() is not the one '
           'generated from this factory\'s operator list',
           loc='yaql/language/factory.py:0')


def check_actions(repo, rep):
    """R02e: the reduce actions build the node the production describes."""
    mod = repo.module('yaql.language.parser')
    def nested(name):
        c = [f for f in mod.functions.values()
             if f.name == name and f.parent_func is not None]
        return c[0] if len(c) == 1 else None
    pb, pu = nested('p_binary'), nested('p_unary')
    if pb is None or pu is None:
        raise AnalysisError('anchor vanished: p_binary / p_unary')

    from sa import absint
    EXP = 'yaql.language.expressions'

    def run(fi, items, types, aliases):
        built = []

        def oracle(name, args, kwargs):
            if name.startswith((EXP + ':', EXP + '.')) and \
                    name.rsplit('.', 1)[-1].rsplit(':', 1)[-1][:1].isupper():
                built.append((name.replace(':', '.').rsplit('.', 1)[1],
                              list(args)))
                return (absint.Sym('node'),)
            return None
        pobj = absint.Obj(
            'p', __items__=list(items),
            slice=[None if t is None else absint.Obj('sym', type=t)
                   for t in types])
        this = absint.Obj('this', _aliases=dict(aliases))
        ops = absint.Obj('table', operators={
            x: (x,) for x in items if isinstance(x, str)} | {
            '-': ('-',), '!': ('!',), '+': ('+',)})
        it = absint.Interp(repo, mod, oracle, follow=False)
        ps = fi.params()
        args = {ps[-1]: pobj}
        if len(ps) > 1:
            args[ps[0]] = this
        cenv = {}
        for q in fi.parent_func.params()[1:]:
            # the operator table is the closure variable the action asks
            # `.operators` of; anything else is opaque
            uses_ops = any(isinstance(x, ast.Attribute) and
                           x.attr == 'operators' and isinstance(
                               x.value, ast.Name) and x.value.id == q
                           for x in ast.walk(fi.node))
            cenv[q] = ops if uses_ops else absint.Obj(q)
        # locals of the generating method that alias a field of the parser
        # (aliases = self._aliases) are that field
        pself = fi.parent_func.params()[:1]
        if pself and pself[0] not in args:
            cenv[pself[0]] = this      # the parser the actions belong to
        for st in model.walk_shallow(fi.parent_func.node):
            if isinstance(st, ast.Assign) and len(st.targets) == 1 and \
                    isinstance(st.targets[0], ast.Name) and isinstance(
                        st.value, ast.Attribute) and isinstance(
                        st.value.value, ast.Name) and pself and \
                    st.value.value.id == pself[0] and \
                    st.value.attr in this.attrs:
                cenv[st.targets[0].id] = this.attrs[st.value.attr]
        try:
            out = it.run(fi.node, args, cenv)
        except absint.Unsupported as e:
            raise AnalysisError('R02e: %s uses a construct outside the '
                                'modelled fragment (%s)' % (fi.name, e))
        return out, built, pobj.attrs['__items__'][0]

    L, R, V = absint.Sym('left'), absint.Sym('right'), absint.Sym('operand')
    out, built, p0 = run(pb, [None, L, '+', R],
                         [None, 'value', 'OP_B', 'value'],
                         {'OP_B': 'alias-of-OP_B', 'value': 'wrong'})
    ok = len(built) == 1 and built[0][0] == 'BinaryOperator'
    rep.ob('R02e', 'yaql.language.parser:p_binary/constructs-node', ok,
           'p_binary must build exactly one BinaryOperator (built: %s)' %
           [b[0] for b in built], loc=mod.loc(pb.node))
    if ok:
        a = built[0][1]
        good = len(a) >= 4 and a[0] == '+' and a[1] is L and a[2] is R and \
            a[3] == 'alias-of-OP_B' and isinstance(p0, absint.Sym)
        rep.ob('R02e', 'yaql.language.parser:p_binary/operands', good,
               'production is value OP value: the node must be '
               'BinaryOperator(<operator text>, <left>, <right>, <alias of '
               'the operator token>) and become p[0]; built %r, p[0]=%r' % (
                   a, p0), loc=mod.loc(pb.node))
    # every operator symbol of the standard table, with and without an
    # alias: the actions must treat them all alike
    fmod = repo.module('yaql.language.factory')
    std = fmod.func('YaqlFactory._standard_operators')
    symbols = sorted({t.elts[0].value for t in ast.walk(fmod.tree)
                      if isinstance(t, ast.Tuple) and len(t.elts) in (2, 3)
                      and isinstance(t.elts[0], ast.Constant) and
                      isinstance(t.elts[0].value, str) and isinstance(
                          t.elts[1], (ast.Attribute, ast.Name))} -
                     {'[]', '{}'})
    if len(symbols) < 15:
        raise AnalysisError('anchor vanished: operator symbols of '
                            '_standard_operators (%d found)' % len(symbols))
    uniform_bad = []
    for sym in symbols:
        for aliased in (True, False):
            al = {'OP_B': 'al', 'OP_U': 'al', 'OP_S': 'al'} if aliased \
                else {}
            want_alias = 'al' if aliased else None
            o, b, p0 = run(pb, [None, L, sym, R],
                           [None, 'value', 'OP_B', 'value'], al)
            if not (len(b) == 1 and b[0][0] == 'BinaryOperator' and
                    len(b[0][1]) >= 4 and b[0][1][0] == sym and
                    b[0][1][1] is L and b[0][1][2] is R and
                    b[0][1][3] == want_alias and
                    isinstance(p0, absint.Sym)):
                uniform_bad.append('binary %r alias=%s' % (sym, aliased))
            for items, types in (([None, sym, V], [None, 'OP_U', 'value']),
                                 ([None, V, sym], [None, 'value', 'OP_S'])):
                o, b, p0 = run(pu, items, types, al)
                if not (len(b) == 1 and b[0][0] == 'UnaryOperator' and
                        len(b[0][1]) >= 3 and b[0][1][0] == sym and
                        b[0][1][1] is V and b[0][1][2] == want_alias and
                        isinstance(p0, absint.Sym)):
                    uniform_bad.append('%s %r alias=%s' % (
                        'prefix' if items[1] == sym else 'suffix', sym,
                        aliased))
    rep.ob('R02e', 'yaql.language.parser:actions/uniform-over-symbols',
           not uniform_bad,
           'the reduce actions must build the same kind of node for every '
           'operator symbol, aliased or not (the tree is dictated by the '
           'table, not by the spelling of an operator); they do not for: %s'
           % uniform_bad[:6], loc=mod.loc(pu.node),
           construct='; '.join(uniform_bad[:4]))
    rep.count(action_scenarios=len(symbols) * 6)
    for label, items, types, op in (
            ('prefix', [None, '-', V], [None, 'OP_U', 'value'], '-'),
            ('suffix', [None, V, '!'], [None, 'value', 'OP_S'], '!')):
        out, built, p0 = run(pu, items, types,
                             {'OP_U': 'alias-of-OP_U',
                              'OP_S': 'alias-of-OP_S', 'value': 'wrong'})
        ok = len(built) == 1 and built[0][0] == 'UnaryOperator'
        rep.ob('R02e', 'yaql.language.parser:p_unary/constructs-node[%s]' %
               label, ok, 'p_unary must build exactly one UnaryOperator '
               'for a %s operator (built: %s)' % (
                   label, [b[0] for b in built]), loc=mod.loc(pu.node))
        if not ok:
            continue
        a = built[0][1]
        want_alias = 'alias-of-OP_U' if label == 'prefix' else \
            'alias-of-OP_S'
        good = len(a) >= 3 and a[0] == op and a[1] is V and \
            a[2] == want_alias and isinstance(p0, absint.Sym)
        rep.ob('R02e', 'yaql.language.parser:p_unary/operands[%s]' % label,
               good,
               'for a %s operator the node must be UnaryOperator(<operator '
               'text>, <operand>, <alias of the operator token>) and '
               'become p[0]; built %r, p[0]=%r' % (label, a, p0),
               loc=mod.loc(pu.node))


def check_documented_operators(repo, rep, rule='R02h'):
    """The operators of the default table are the ones the language
    reference lists ("The following operators are available by default").
    An operator *word* that is in the table but not in the reference is a
    word users cannot know to be reserved: it stops being usable as a bare
    keyword / member name / dict key in every default engine."""
    import os
    import re as _re
    fmod = repo.module('yaql.language.factory')
    symbols = {t.elts[0].value for t in ast.walk(fmod.tree)
               if isinstance(t, ast.Tuple) and len(t.elts) in (2, 3)
               and isinstance(t.elts[0], ast.Constant) and
               isinstance(t.elts[0].value, str) and isinstance(
                   t.elts[1], (ast.Attribute, ast.Name))} - {'[]', '{}'}
    path = os.path.join(repo.root, 'doc', 'source',
                        'language_reference.rst')
    if not os.path.exists(path):
        raise AnalysisError('anchor vanished: doc/source/'
                            'language_reference.rst')
    text = open(path, encoding='utf-8').read()
    i = text.find('available by default')
    if i < 0:
        raise AnalysisError('anchor vanished: the list of default '
                            'operators in the language reference')
    j = text.find('\nUpon yaql parser initialization', i)
    block = text[i:j if j > 0 else i + 3000]
    documented = set()
    for line in block.splitlines():
        if line.startswith('|') and line.count('|') >= 3:
            cell = line.split('|')[2]
            documented |= set(_re.findall(r'`([^`]+)`', cell))
    if len(documented) < 10:
        raise AnalysisError('could not read the operator tables of the '
                            'language reference (%d symbols)' % len(
                                documented))
    words = {x for x in symbols if x[:1].isalpha()}
    rep.ob(rule, 'default-table/word-operators-documented',
           words <= documented,
           'operator word(s) %s are in the default operator table but not '
           'among the default operators of the language reference: in '
           'every default engine they stop being ordinary words (bare '
           'keywords, member names, dict keys such as `$.%s`) without users '
           'having been told' % (sorted(words - documented),
                                 sorted(words - documented)[0]
                                 if words - documented else ''),
           loc='yaql/language/factory.py:0',
           construct=', '.join(sorted(words - documented)))
    rep.ob(rule, 'default-table/documented-operators-exist',
           documented - {'=>'} <= symbols,
           'the language reference lists default operators %s that the '
           'default table does not have' % sorted(
               documented - {'=>'} - symbols),
           loc='doc/source/language_reference.rst:0')


def cross_read_default(repo, rep):
    """The default operator list read from the AST literal must equal the
    list the factory object holds (oracle independence)."""
    mod = repo.module('yaql.language.factory')
    fi = mod.func('YaqlFactory._standard_operators')
    ret = [n for n in ast.walk(fi.node) if isinstance(n, ast.Return)]
    if len(ret) != 1 or not isinstance(ret[0].value, ast.List):
        rep.note('default operator list is no longer a literal; AST '
                 'cross-read skipped')
        return
    lit = []
    for e in ret[0].value.elts:
        if not isinstance(e, ast.Tuple):
            rep.note('non-tuple operator record; cross-read skipped')
            return
        row = []
        for x in e.elts:
            if isinstance(x, ast.Constant):
                row.append(x.value)
            elif isinstance(x, ast.Attribute):
                row.append(x.attr)
            else:
                rep.note('unrecognised operator record; cross-read skipped')
                return
        lit.append(tuple(row))
    m = grammar.load_repo_package()
    fac = m['yaql'].YaqlFactory(keyword_operator=None)
    held = [tuple(r) for r in fac.operators]
    rep.ob('R02a', 'default/operator-list-literal-vs-object', lit == held,
           'AST literal of _standard_operators differs from the list the '
           'factory holds', loc=mod.loc(fi.node))


def run(repo, rep):
    rep.rule('R02a', 'LR-CONFORMANCE: at every (completed operator item, '
             'operator look-ahead) the automaton reduces iff the item\'s '
             'group binds tighter (or equal and left-associative), else '
             'shifts')
    rep.rule('R02b', 'NO-STRAY-CONFLICTS: no reduce/reduce conflict; every '
             'default-resolved shift/reduce conflict is in the reviewed table')
    rep.rule('R02c', 'EXHAUSTIVE: every table symbol has a token and '
             'productions of exactly its arities; aliases reach the parser')
    rep.rule('R02d', 'LONGEST-FIRST: a token whose spelling extends another '
             'is tried first; KEYWORD_STRING precedes all string rules')
    rep.rule('R02f', 'CREATE-RETURNS-THESE-TABLES: the engine returned by '
             'YaqlFactory.create() carries the LALR tables and lexer '
             'generated from this factory\'s operator list (configurations '
             'that differ only in grouping are created back to back)')
    rep.rule('R02g', 'INSERT-POSITION: after insert_operator the new '
             'operator is in the group of the existing one, or in a new '
             'group right after it (reference model of the API)')
    rep.rule('R02e', 'REDUCE-BUILDS-THE-RIGHT-NODE: p_binary/p_unary take '
             'operator and operands from the right slice positions')
    rep.trusted += ['ply 3.11 LALR table construction (yacc.LRGeneratedTable)'
                    ' and LR driver', 'ply lex master-regex ordering']
    rep.explanation = (
        'Per configuration the repository\'s own generator is run (operator '
        'list -> _build_operator_table -> Lexer/Parser -> ply Grammar -> '
        'LALR table) and the table is queried: every shift/reduce decision '
        'between a completed operator production and an operator look-ahead '
        'must be the one the operator list dictates. No text is parsed.')
    cross_read_default(repo, rep)
    try:
        check_actions(repo, rep)
    except AnalysisError as e:
        # the table rules below do not depend on the reduce actions
        rep.error(str(e))
    # which token a word becomes is part of "the operator table decides":
    # an operator word is an operator token wherever it stands
    from sa.rules import c16
    rep.rule('R02h', 'DEFAULT-OPERATORS-ARE-DOCUMENTED: the operator words of '
             'the default table are those the language reference lists, and '
             'every documented default operator exists')
    check_documented_operators(repo, rep)
    rep.rule('R16d', 'see C16: a word is an operator token iff it is in the '
             'operator table, whatever surrounds it (context-free lexing)')
    c16.check_keywords(repo, rep)
    total = 0
    samples = []
    ncfg = 0
    for label, mk in configurations(rep.tier):
        try:
            fac = mk()
        except Exception as e:
            raise AnalysisError('configuration %s cannot be built: %r' % (
                label, e))
        res = check_config(rep, label, fac)
        check_insert_position(rep, label, mk, fac)
        if not res:
            continue
        n, items, nstates, nprods = res
        ncfg += 1
        total += n
        samples.append({'configuration': label, 'lr_obligations': n,
                        'completed_operator_items': items,
                        'states': nstates, 'productions': nprods})
        if label == 'default':
            rep.floor('default-table LR obligations', n, 400)
            rep.floor('default-table operator tokens',
                      len(fac._build_operator_table(
                          fac._name_generator()).operators), 20)
    rep.count(configurations=ncfg, lr_obligations=total)
    rep.extra_cov['programs'] = ncfg
    rep.extra_cov['disagreements_checked'] = total
    rep.extra_cov['per_configuration'] = samples
