"""C19 -- string and regex functions (API-conformance clauses)."""
import ast
import importlib

from sa import model
from sa import norm
from sa import universe as unimod
from sa.model import AnalysisError

TITLE = 'stdlib names resolve; re.Match API kinds; sibling symmetry'

S = 'yaql.standard_library.strings'
R = 'yaql.standard_library.regex'

# (module, function a, function b, {text in a: text in b}, note)
SIBLINGS = [
    (S, 'index_of', 'last_index_of', {'find': 'rfind'}, 'direction'),
    (S, 'index_of_', 'last_index_of_', {'find': 'rfind'}, 'direction'),
    (S, 'trim', 'trim_left', {'strip': 'lstrip'}, 'side'),
    (S, 'trim', 'trim_right', {'strip': 'rstrip'}, 'side'),
    (S, 'split', 'right_split', {'split': 'rsplit'}, 'direction'),
    (S, 'gt', 'lt', {'>': '<'}, 'polarity'),
    (S, 'gte', 'lte', {'>=': '<='}, 'polarity'),
    (S, 'starts_with', 'ends_with', {'startswith': 'endswith',
                                     'prefixes': 'suffixes'}, 'side'),
    (S, 'to_upper', 'to_lower', {'upper': 'lower'}, 'case'),
    (R, 'matches_operator_regex', 'not_matches_operator_regex',
     {'is not None': 'is None'}, 'polarity'),
    (R, 'matches_operator_string', 'not_matches_operator_string',
     {'is not None': 'is None'}, 'polarity'),
    (R, 'matches', 'matches_operator_regex', {}, 'method vs operator'),
    (R, 'matches_', 'matches_operator_string', {'regexp': 'pattern'},
     'method vs operator'),
    (R, 'split', 'split_string', {}, 'regex-first vs string-first'),
]
MATCH_INDEX_METHODS = {'start', 'end', 'span', 'group'}
ARITY = {'items': 2, 'values': 1, 'keys': 1, 'groups': 1}


def check_stdlib_names(repo, rep):
    n = 0
    cache = {}

    def resolve_real(dotted):
        """(found, how far) -- import the longest module prefix, then
        getattr the rest."""
        if dotted in cache:
            return cache[dotted]
        parts = dotted.split('.')
        obj = None
        k = 0
        for i in range(len(parts), 0, -1):
            try:
                obj = importlib.import_module('.'.join(parts[:i]))
                k = i
                break
            except Exception:
                continue
        if obj is None:
            cache[dotted] = (None, 0)
            return cache[dotted]
        ok = True
        for j in range(k, len(parts)):
            if not hasattr(obj, parts[j]):
                ok = False
                cache[dotted] = (False, j)
                return cache[dotted]
            obj = getattr(obj, parts[j])
        cache[dotted] = (True, len(parts))
        return cache[dotted]

    for mod in repo.modules.values():
        if mod.name.startswith('yaql.cli'):
            continue
        ext = {a: t for a, t in mod.imports.items()
               if not t.startswith('yaql') and t.split('.')[0] not in (
                   'pkg_resources',)}
        if not ext:
            continue
        for node in ast.walk(mod.tree):
            if not isinstance(node, ast.Attribute):
                continue
            par = getattr(node, '_parent', None)
            if isinstance(par, ast.Attribute) and par.value is node:
                continue     # only the full chain
            chain = []
            e = node
            while isinstance(e, ast.Attribute):
                chain.append(e.attr)
                e = e.value
            if not isinstance(e, ast.Name) or e.id not in ext:
                continue
            fn = model.enclosing_function(node)
            if fn is not None and e.id in model.local_names_of(fn):
                continue
            chain.reverse()
            base = ext[e.id]
            # only the part that is certainly a module/class attribute:
            # module.attr[.attr]; stop at the first call boundary
            dotted = base + '.' + '.'.join(chain)
            found, depth = resolve_real(base)
            if found is None:
                continue         # module not importable here: no verdict
            # walk as far as attributes of modules/classes go
            cur = base
            ok = True
            bad = None
            for a in chain:
                f2, _ = resolve_real(cur + '.' + a)
                if f2 is None:
                    break
                if not f2:
                    ok = False
                    bad = cur + '.' + a
                    break
                cur = cur + '.' + a
                # do not look inside instances (e.g. tz.tzutc().x)
                try:
                    obj = importlib.import_module(cur.split('.')[0])
                    for part in cur.split('.')[1:]:
                        obj = getattr(obj, part)
                    import types as _t
                    if not isinstance(obj, (_t.ModuleType, type)):
                        break
                except Exception:
                    break
            n += 1
            fi_key = mod.name
            if fn is not None:
                for f in mod.functions.values():
                    if f.node is fn:
                        fi_key = f.key
            rep.ob('R19a', '%s/%s' % (fi_key, dotted), ok,
                   '`%s` names %s, which does not exist in this '
                   'interpreter: evaluating the code raises '
                   'AttributeError' % (model.norm(node), bad),
                   loc=mod.loc(node), construct=model.norm(node))
        # getattr(<foreign module>, <name from a constant table>[, default])
        for c in ast.walk(mod.tree):
            if not (isinstance(c, ast.Call) and isinstance(
                    c.func, ast.Name) and c.func.id == 'getattr' and
                    len(c.args) >= 2 and isinstance(c.args[0], ast.Name)
                    and c.args[0].id in ext):
                continue
            fn = model.enclosing_function(c)
            if fn is not None and c.args[0].id in model.local_names_of(fn):
                continue
            names = _constant_names(mod, c.args[1], c)
            if names is None:
                rep.note('R19a: %s: attribute name of %s not a constant '
                         'table; not decided' % (mod.loc(c), model.norm(c)))
                continue
            base = ext[c.args[0].id]
            found, _ = resolve_real(base)
            if found is None:
                continue
            for nm in names:
                n += 1
                f2, _ = resolve_real(base + '.' + nm)
                rep.ob('R19a', '%s/getattr[%s.%s]' % (mod.name, base, nm),
                       bool(f2),
                       '`%s` looks up `%s.%s`, which does not exist in this '
                       'interpreter: %s' % (
                           model.norm(c), base, nm,
                           'the default is used silently, so the option '
                           'that selects it contributes nothing'
                           if len(c.args) > 2 else 'AttributeError'),
                       loc=mod.loc(c), construct=model.norm(c))
    rep.floor('references to attributes of imported foreign modules', n, 100)
    return n


def _constant_names(mod, arg, call):
    """The finite set of strings `arg` ranges over, or None."""
    def table(e):
        if isinstance(e, (ast.Tuple, ast.List, ast.Set)) and e.elts and all(
                isinstance(x, ast.Constant) and isinstance(x.value, str)
                for x in e.elts):
            return [x.value for x in e.elts]
        if isinstance(e, ast.Dict) and e.keys and all(
                isinstance(x, ast.Constant) and isinstance(x.value, str)
                for x in e.keys):
            return [x.value for x in e.keys]
        if isinstance(e, ast.Name):
            for st in mod.tree.body:
                if isinstance(st, ast.Assign) and any(
                        isinstance(t, ast.Name) and t.id == e.id
                        for t in st.targets):
                    return table(st.value)
        return None
    if isinstance(arg, ast.Constant) and isinstance(arg.value, str):
        return [arg.value]
    if not isinstance(arg, ast.Name):
        return None
    # bound by an enclosing comprehension or for loop over a constant table
    p = getattr(call, '_parent', None)
    while p is not None:
        gens = []
        if isinstance(p, (ast.GeneratorExp, ast.ListComp, ast.SetComp,
                          ast.DictComp)):
            gens = [(g.target, g.iter) for g in p.generators]
        elif isinstance(p, ast.For):
            gens = [(p.target, p.iter)]
        for tgt, it in gens:
            if isinstance(tgt, ast.Name) and tgt.id == arg.id:
                return table(it)
        if isinstance(p, (ast.FunctionDef, ast.Lambda)):
            break
        p = getattr(p, '_parent', None)
    return None


def match_values(fi):
    """Names bound to an re.Match object in fi."""
    names = set()
    for p in fi.params():
        if p in ('match', 'm', 'res') and p == 'match':
            names.add(p)
    for s in model.walk_shallow(fi.node):
        if isinstance(s, ast.Assign) and isinstance(
                s.targets[0], ast.Name) and isinstance(s.value, ast.Call) \
                and isinstance(s.value.func, ast.Attribute) and \
                s.value.func.attr in ('search', 'match', 'fullmatch'):
            names.add(s.targets[0].id)
        if isinstance(s, ast.For) and isinstance(s.target, ast.Name) and \
                isinstance(s.iter, ast.Call) and isinstance(
                    s.iter.func, ast.Attribute) and \
                s.iter.func.attr == 'finditer':
            names.add(s.target.id)
    if 'match' in fi.params():
        names.add('match')
    # an attribute of self that the constructor binds to a match
    if fi.cls is not None and fi.params():
        init = fi.cls.methods.get('__init__')
        if init is not None and 'match' in init.params():
            for st in model.walk_shallow(init.node):
                if isinstance(st, ast.Assign) and isinstance(
                        st.value, ast.Name) and st.value.id == 'match':
                    for t in st.targets:
                        if isinstance(t, ast.Attribute) and isinstance(
                                t.value, ast.Name):
                            names.add('%s.%s' % (fi.params()[0], t.attr))
    return names


def check_match_api(repo, rep):
    mod = repo.module(R)
    n = 0
    param_kinds = {}     # function key -> {parameter: kind}, from callers
    for round_ in range(3):
        n = 0
        n = _match_api_pass(repo, rep if round_ == 2 else None, mod,
                            param_kinds)
    n += _publish_by_evaluation(repo, rep, mod)
    rep.floor('re.Match API obligations', n, 3)


def _publish_by_evaluation(repo, rep, mod):
    """_publish_match applied abstractly to a match of `(a)(?P<n>b)?` on
    'a!' (group 2 / n did not take part): $1 is the whole match, $2 and $3
    the numbered groups, $n the named one, each with value / start / end as
    re.Match reports them -- null and -1 for the group that is unset.
    Returns the number of obligations recorded (0 when the function is
    outside the evaluator's fragment)."""
    from sa import absint
    fi = mod.functions.get('_publish_match')
    if fi is None or len(fi.params()) != 2:
        return 0
    values = {0: 'a', 1: 'a', 2: None, 'n': None}
    spans = {0: (0, 1), 1: (0, 1), 2: (-1, -1), 'n': (-1, -1)}

    def oracle(callee, args, kwargs):
        if not callee.startswith('match.'):
            return None
        what = callee[6:]
        key = args[0] if args else 0
        if what == 'group':
            if len(args) > 1:
                return (tuple(values[k] for k in args),)
            return (values[key],)
        if what == 'groups':
            d = args[0] if args else kwargs.get('default')
            return (tuple(d if values[k] is None else values[k]
                          for k in (1, 2)),)
        if what == 'groupdict':
            d = args[0] if args else kwargs.get('default')
            return ({'n': d if values['n'] is None else values['n']},)
        if what == 'start':
            return (spans[key][0],)
        if what == 'end':
            return (spans[key][1],)
        if what == 'span':
            return (spans[key],)
        return None
    match = absint.Obj(
        'match', string='a!', pos=0, endpos=2, lastindex=1, lastgroup=None,
        re=absint.Obj('pattern', groups=2, groupindex={'n': 2},
                      pattern='(a)(?P<n>b)?'),
        **{k: absint.Sym('match.' + k) for k in (
            'group', 'groups', 'groupdict', 'start', 'end', 'span')})
    ctx = {}
    it = absint.Interp(repo, mod, oracle)
    it.shared['eager-generators'] = True
    try:
        it.run(fi.node, {fi.params()[0]: ctx, fi.params()[1]: match})
    except (absint.Unsupported, absint._Raise, RecursionError, TypeError,
            KeyError, IndexError) as e:
        rep.note('R19b: _publish_match not interpretable (%r)' % (e,))
        return 0
    want = {'$1': 0, '$2': 1, '$3': 2, '$n': 'n'}
    n = 0
    for var, key in want.items():
        n += 1
        got = ctx.get(var)
        exp = {'value': values[key], 'start': spans[key][0],
               'end': spans[key][1]}
        ok = isinstance(got, dict) and all(
            (got.get(f) is exp[f]) if exp[f] is None else
            (got.get(f) == exp[f] and type(got.get(f)) is type(exp[f]))
            for f in exp) and set(got) == set(exp)
        rep.ob('R19b', '%s/publishes[%s]' % (fi.key, var), ok,
               'for a match of (a)(?P<n>b)? on \'a!\' the variable %s must '
               'be %r (what re.Match reports for that group: an optional '
               'group that did not take part is null, at -1); '
               '_publish_match publishes %r' % (var, exp, got),
               loc=mod.loc(fi.node))
    extra = sorted(set(ctx) - set(want))
    rep.ob('R19b', fi.key + '/publishes-nothing-else', not extra,
           '_publish_match publishes %s besides $1..$3 and $n' % extra,
           loc=mod.loc(fi.node))
    return n + 1


def _match_api_pass(repo, rep, mod, param_kinds):
    class _Quiet:
        def ob(self, *a, **k):
            pass
    real = rep
    rep = rep or _Quiet()
    n = 0
    for q, fi in mod.functions.items():
        ms = match_values(fi)
        kinds = dict(param_kinds.get(fi.key, {}))
        # what this function hands to helpers of the module
        if not ms and not kinds:
            continue
        for loop in [x for x in model.walk_shallow(fi.node)
                     if isinstance(x, ast.For)]:
            it = loop.iter
            tgt = loop.target
            tnames = [t.id for t in (tgt.elts if isinstance(
                tgt, ast.Tuple) else [tgt]) if isinstance(t, ast.Name)]
            src = it
            enum = False
            if isinstance(it, ast.Call) and isinstance(it.func, ast.Name) \
                    and it.func.id == 'enumerate' and it.args:
                src = it.args[0]
                enum = True
            if not (isinstance(src, ast.Call) and isinstance(
                    src.func, ast.Attribute)):
                continue
            meth = src.func.attr
            base = src.func.value
            on_match = model.norm(base) in ms
            on_groupdict = isinstance(base, ast.Call) and isinstance(
                base.func, ast.Attribute) and base.func.attr == \
                'groupdict' and model.norm(base.func.value) in ms
            if not (on_match and meth == 'groups' or on_groupdict and
                    meth in ARITY):
                continue
            n += 1
            per = ARITY[meth]
            got = len(tnames) if isinstance(tgt, ast.Tuple) else 1
            want = per if not enum else 2
            inner_ok = True
            if enum and isinstance(tgt, ast.Tuple) and len(tgt.elts) == 2 \
                    and isinstance(tgt.elts[1], ast.Tuple):
                inner_ok = len(tgt.elts[1].elts) == per
            site = '%s/iteration[%s]' % (fi.key, model.norm(it))
            rep.ob('R19b', site, got == want and inner_ok,
                   'iterating %s yields %s per step but the loop unpacks '
                   '%d names: ValueError (or silently wrong groups) as soon '
                   'as the pattern has such a group' % (
                       model.norm(it), 'a single value' if want == 1
                       else '%d-tuples' % want, got),
                   loc=mod.loc(loop), construct=model.norm(loop).split(
                       '\n')[0])
            if enum and len(tnames) == 2:
                kinds[tnames[0]] = 'index'
                kinds[tnames[1]] = 'value' if meth in ('groups',
                                                       'values') else 'name'
            elif on_groupdict and meth == 'items' and len(tnames) == 2:
                kinds[tnames[0]] = 'name'
                kinds[tnames[1]] = 'value'
            elif meth in ('values', 'groups') and tnames:
                for t in tnames:
                    kinds[t] = 'value'
            elif meth == 'keys' and tnames:
                kinds[tnames[0]] = 'name'
        for c in model.calls_in(fi.node, shallow=True):
            f = c.func
            h = None
            if isinstance(f, ast.Name):
                h = mod.functions.get(f.id)
                off = 0
            elif isinstance(f, ast.Attribute) and isinstance(
                    f.value, ast.Name) and fi.cls is not None and \
                    fi.params() and f.value.id == fi.params()[0]:
                h = fi.cls.methods.get(f.attr)
                off = 1
            if h is not None:
                hp = h.params()[off:]
                for i, a in enumerate(c.args):
                    if i < len(hp) and isinstance(a, ast.Name) and \
                            a.id in kinds:
                        cur = param_kinds.setdefault(h.key, {})
                        prev = cur.get(hp[i])
                        k1 = kinds[a.id]
                        cur[hp[i]] = k1 if prev in (None, k1) else (
                            'index' if {prev, k1} <= {'index', 'name'}
                            else 'value')
                    elif i < len(hp) and isinstance(a, ast.Constant) and \
                            isinstance(a.value, (int, str)):
                        cur = param_kinds.setdefault(h.key, {})
                        k0 = 'index' if isinstance(a.value, int) else 'name'
                        prev = cur.get(hp[i])
                        cur[hp[i]] = k0 if prev in (None, k0) else (
                            prev if {prev, k0} <= {'index', 'name'}
                            else 'value')
        for c in model.calls_in(fi.node, shallow=True):
            f = c.func
            if isinstance(f, ast.Attribute) and model.norm(
                    f.value) in ms and f.attr in MATCH_INDEX_METHODS:
                for a in c.args:
                    n += 1
                    site = '%s/%s-argument' % (fi.key, f.attr)
                    if isinstance(a, ast.Constant):
                        ok = isinstance(a.value, (int, str))
                        why = 'literal'
                    elif isinstance(a, ast.Name):
                        k = kinds.get(a.id)
                        ok = k in ('index', 'name')
                        why = 'a group %s' % (k or 'of unknown kind')
                        if k is None:
                            ok = True
                    else:
                        ok = True
                        why = 'expression'
                    rep.ob('R19b', site, ok,
                           'match.%s() takes a group index or a group name; '
                           '`%s` is %s (the matched text): IndexError "no '
                           'such group" for every pattern with a named '
                           'group' % (f.attr, model.norm(a), why),
                           loc=mod.loc(c), construct=model.norm(c))
    # findall / split return *groups* (not whole matches / plain pieces)
    # as soon as the caller's pattern has a capturing group
    for q, fi in mod.functions.items():
        for c in model.calls_in(fi.node, shallow=True):
            f = c.func
            if isinstance(f, ast.Attribute) and f.attr == 'findall':
                # a module-level constant pattern without groups is fine
                d = repo.resolve(mod, f.value, model.scope_locals(fi))
                tgt = repo.lookup(d) if d else None
                if isinstance(tgt, tuple) and tgt[0] == 'const' and \
                        isinstance(tgt[2], ast.Call) and tgt[2].args and \
                        isinstance(tgt[2].args[0], ast.Constant):
                    try:
                        import re as _re
                        if _re.compile(tgt[2].args[0].value).groups == 0:
                            continue
                    except Exception:
                        pass
                n += 1
                rep.ob('R19b', '%s/findall' % fi.key, False,
                       '`%s`: findall() yields the groups, not the matched '
                       'text, for every pattern that has a capturing group '
                       '(and tuples when it has several); walk finditer() '
                       'and take group() instead' % model.norm(c),
                       loc=mod.loc(c), construct=model.norm(c))
    return n


class _FlipNot(ast.NodeTransformer):
    """not (a is b) -> a is not b, etc.; not not x -> x"""
    FLIP = {ast.Is: ast.IsNot, ast.IsNot: ast.Is, ast.Eq: ast.NotEq,
            ast.NotEq: ast.Eq, ast.In: ast.NotIn, ast.NotIn: ast.In}

    def visit_UnaryOp(self, n):
        self.generic_visit(n)
        if isinstance(n.op, ast.Not):
            o = n.operand
            if isinstance(o, ast.Compare) and len(o.ops) == 1 and \
                    type(o.ops[0]) in self.FLIP:
                return ast.Compare(left=o.left,
                                   ops=[self.FLIP[type(o.ops[0])]()],
                                   comparators=o.comparators)
            if isinstance(o, ast.UnaryOp) and isinstance(o.op, ast.Not):
                return o.operand
        return n


def body_text(fi, subst, rename=None):
    """Text of the body in a normal form: one-expression module helpers
    inlined, single-use straight-line locals substituted, negated
    comparisons flipped; then the sibling substitution applied."""
    import copy
    body = [copy.deepcopy(x) for x in model.strip_docstring(fi.node.body)]
    repo = fi.module.repo if hasattr(fi.module, 'repo') else None
    out = []
    # names the body binds itself (locals, loop and comprehension
    # variables) are numbered in order of first binding: what they are
    # called is not a difference
    params = set(fi.params())
    order = {}
    wrapper = ast.Module(body=body, type_ignores=[])

    def first_bindings(node):
        # source order: ast.walk is breadth first, so sort by position
        names = [x for x in ast.walk(node) if isinstance(x, ast.Name) and
                 isinstance(x.ctx, ast.Store) and x.id not in params]
        names.sort(key=lambda x: (getattr(x, 'lineno', 0),
                                  getattr(x, 'col_offset', 0)))
        for x in names:
            order.setdefault(x.id, '_v%d' % len(order))
    first_bindings(wrapper)
    for st in body:
        for x in ast.walk(st):
            if isinstance(x, ast.Name) and x.id in order:
                x.id = order[x.id]
    for st in body:
        st2 = norm.inline_simple_calls(None, fi.module, st)
        st2 = _FlipNot().visit(st2)
        ast.fix_missing_locations(st2)
        out.append(ast.unparse(st2))
    txt = '\n'.join(out)
    return _subst(txt, subst)


def _subst(txt, subst):
    import re as _re
    for a, b in subst.items():
        if _re.fullmatch(r'\w+', a):
            txt = _re.sub(r'\b%s\b' % _re.escape(a), b, txt)
        else:
            txt = txt.replace(a, b)
    return txt


def decl_text(repo, fi, subst):
    out = []
    for d in fi.node.decorator_list:
        t = ast.unparse(d)
        if 'specs.parameter' not in t:
            continue      # kind/name decorators legitimately differ
        out.append(_subst(t, subst))
    return sorted(out)


def _hands_on_chars(mod, par, u):
    """`chars` passed as the `chars` argument of a function of the module
    that has such a parameter (and is held to the same rule)."""
    call = par if isinstance(par, ast.Call) else getattr(par, '_parent',
                                                         None)
    if not (isinstance(call, ast.Call) and isinstance(call.func, ast.Name)):
        return False
    h = mod.functions.get(call.func.id)
    if h is None or h.parent_func is not None or \
            'chars' not in h.params():
        return False
    if isinstance(par, ast.keyword):
        return par.arg == 'chars'
    pos = [i for i, a in enumerate(call.args) if a is u]
    return bool(pos) and pos[0] < len(h.params()) and \
        h.params()[pos[0]] == 'chars'


def check_trim_set_reaches_strip(repo, rep):
    """R19f: trim / trimLeft / trimRight / norm / isEmpty share one notion
    of "characters to trim": each hands its `chars` parameter, as it is, to
    str.strip / lstrip / rstrip (null meaning python's own notion of
    whitespace).  A function that replaces the default by a set of its own
    (string.whitespace is ASCII only) or trims by another method disagrees
    with its siblings on non-ASCII blanks."""
    mod = repo.module(S)
    n = 0
    for fi in mod.functions.values():
        if fi.parent_func is not None or 'chars' not in fi.params():
            continue
        n += 1
        rebound = [x for x in ast.walk(fi.node) if isinstance(x, ast.Name)
                   and x.id == 'chars' and isinstance(x.ctx, ast.Store)]
        uses = [x for x in ast.walk(fi.node) if isinstance(x, ast.Name) and
                x.id == 'chars' and isinstance(x.ctx, ast.Load)]
        bad = list(rebound)
        strips = 0
        for u in uses:
            par = getattr(u, '_parent', None)
            if isinstance(par, ast.Call) and isinstance(
                    par.func, ast.Attribute) and par.func.attr in (
                    'strip', 'lstrip', 'rstrip') and par.args == [u] and \
                    not par.keywords:
                strips += 1
            elif isinstance(par, (ast.Call, ast.keyword)) and \
                    _hands_on_chars(mod, par, u):
                strips += 1     # handed on to a sibling with a trim set
            else:
                bad.append(u)
        rep.ob('R19f', fi.key + '/chars-reaches-strip', not bad and strips,
               '%s must hand `chars` unchanged to str.strip/lstrip/rstrip '
               '(null = python\'s whitespace); it %s' % (
                   fi.name, ('uses it as `%s`' % model.norm(
                       model.enclosing(bad[0], ast.stmt) or bad[0]).split(
                       '\n')[0][:80]) if bad else 'never does'),
               loc=mod.loc(bad[0] if bad else fi.node))
    rep.floor('functions with a trim set', n, 4)


def check_siblings(repo, rep):
    n = 0
    for modname, a, b, subst, note in SIBLINGS:
        mod = repo.module(modname)
        fa, fb = mod.functions.get(a), mod.functions.get(b)
        if fa is None or fb is None:
            raise AnalysisError('anchor vanished: sibling %s / %s' % (a, b))
        n += 1
        ta = body_text(fa, subst)
        tb = body_text(fb, {})
        pa = fa.params()
        pb = fb.params()
        same_params = sorted(subst.get(p, p) for p in pa) == sorted(pb)
        ok = ta == tb and same_params
        rep.ob('R19c', '%s:%s~%s' % (modname, a, b), ok,
               '%s and %s are documented to differ only in %s (%s); their '
               'bodies differ beyond that:\n      %s\n   vs %s' % (
                   a, b, note, subst or 'argument order',
                   ta.replace('\n', ' ; ')[:160],
                   tb.replace('\n', ' ; ')[:160]),
               loc=mod.loc(fb.node))
        da = decl_text(repo, fa, subst)
        db = decl_text(repo, fb, {})
        rep.ob('R19c', '%s:%s~%s/declarations' % (modname, a, b), da == db,
               '%s and %s must declare their parameters alike: %s vs %s' % (
                   a, b, da, db), loc=mod.loc(fb.node))
    # delegating siblings: replace_string -> replace, replace_by_string ->
    # replace_by, join_ -> join, int_by_string -> string_by_int: the callee
    # receives the same values under its own parameter names
    for modname, a, b in ((R, 'replace_string', 'replace'),
                          (R, 'replace_by_string', 'replace_by'),
                          (S, 'join_', 'join'),
                          (S, 'int_by_string', 'string_by_int')):
        mod = repo.module(modname)
        fa, fb = mod.functions.get(a), mod.functions.get(b)
        if fa is None or fb is None:
            raise AnalysisError('anchor vanished: %s / %s' % (a, b))
        n += 1
        body = model.strip_docstring(fa.node.body)
        ok = len(body) == 1 and isinstance(body[0], ast.Return) and \
            isinstance(body[0].value, ast.Call) and isinstance(
                body[0].value.func, ast.Name) and \
            body[0].value.func.id == b
        if ok:
            args = [model.norm(x) for x in body[0].value.args]
            if a == 'int_by_string':
                ok = args == [fa.params()[1], fa.params()[0],
                              fa.params()[2]]
            else:
                ok = args == fb.params()
        if not ok and a == 'int_by_string':
            # both may do the same thing through a common helper: equal
            # bodies once the two operands are swapped
            pa = fa.params()
            swap = {pa[0]: '\0', pa[1]: pa[0]}
            ta = _subst(_subst(body_text(fa, {}), swap), {'\0': pa[1]})
            ok = ta == body_text(fb, {}) and pa == fb.params()
        if not ok and a != 'int_by_string':
            # the same body, written out in both (the parameters carry the
            # same names, whatever their order)
            ok = body_text(fa, {}) == body_text(fb, {}) and \
                sorted(fa.params()) == sorted(fb.params())
        rep.ob('R19c', '%s:%s->%s' % (modname, a, b), ok,
               '%s must hand its arguments to %s under the same parameter '
               'names (in %s\'s order)' % (a, b, b), loc=mod.loc(fa.node))
    rep.floor('sibling pairs', n, 15)


REGEX = 'yaql.standard_library.regex'


def check_callbacks_call_the_lambda(repo, rep, uni):
    """R19d: the function handed to re.sub (a nested def, or the __call__ of
    a small private class) evaluates the replacement lambda for *every*
    match: each normal exit is preceded by a call of the lambda.  A result
    remembered from an earlier match is wrong as soon as the lambda reads
    $.start / $.end / a group captured in a look-around."""
    from sa import cfg as cfgmod
    mod = repo.module(REGEX)
    n = 0
    for fi in mod.functions.values():
        if fi.key in uni.payload_ov:
            continue       # the operators themselves; callbacks are what
            #                they hand to re: nested defs, __call__ of a
            #                private class, private helpers made partial
        env = uni.env(fi)
        g = cfgmod.CFG(fi.node)
        evals = []
        names = set()
        for nd in g.nodes:
            for c in cfgmod.node_calls(nd):
                v = env.ev(c.func)
                if any(t[0] == 'lazy' for t in v.tags):
                    evals.append(nd)
                    names.add(model.norm(c.func))
        if not evals:
            continue
        n += 1
        optional = any(isinstance(x, ast.Compare) and model.norm(
            x.left) in names and isinstance(x.ops[0], (ast.Is, ast.IsNot))
            for x in ast.walk(fi.node))
        ok = optional or not g.reaches_exit_without(g.entry, evals)
        rep.ob('R19d', fi.key + '/lambda-per-match', ok,
               '%s can return a replacement without evaluating the lambda '
               '`%s` for this match (a remembered result, or a shortcut): '
               'replaceBy must evaluate it for every match, the lambda may '
               'depend on the position and groups of the match' % (
                   fi.qualname, sorted(names)[0]),
               loc=mod.loc(fi.node))
    rep.floor('regex callbacks that evaluate a lambda', n, 1)


def check_python_rendering_of_values(repo, rep, uni):
    """R19e: builtin str() / repr() / format() / %-formatting of a value of
    the evaluation renders null, true and false the python way (None, True,
    False).  Such a call is allowed only where the three are excluded: after
    `is None` / `is True` / `is False` tests, under isinstance(x, str), or
    on a parameter whose declared type admits neither."""
    n = 0
    mods = ('yaql.standard_library.strings', 'yaql.standard_library.regex')
    for fi, role in uni.evaluation_time():
        if fi.module.name not in mods:
            continue
        env = None
        for c in model.calls_in(fi.node, shallow=True):
            d = repo.resolve(fi.module, c.func, model.scope_locals(fi))
            if d not in ('builtins.str', 'builtins.repr',
                         'builtins.format') or not c.args or \
                    not isinstance(c.args[0], ast.Name):
                continue
            x = c.args[0].id
            env = env or uni.env(fi)
            v = env.ev(c.args[0])
            if not any(t[0] in ('param', 'derived', 'lazyres')
                       for t in v.tags):
                continue
            n += 1
            if _declared_without_bool_and_null(uni, fi, x):
                rep.ob('R19e', '%s/%s(%s)' % (fi.key, d[9:], x), True,
                       'declared type excludes null and booleans')
                continue
            lits = {(model.norm(e), p) for e, p in norm.literals(
                c, fi.node)}
            excl = all(('%s is %s' % (x, k), False) in lits or
                       ('%s is not %s' % (x, k), True) in lits
                       for k in ('None', 'True', 'False'))
            if not excl:
                excl = {None, True, False} <= _identity_table_exits(
                    repo, fi, c, x)
            is_str = any(p and e.startswith('isinstance(%s, ' % x) and
                         e[len('isinstance(%s, ' % x):-1] in (
                             'str', '(str,)') for e, p in lits)
            rep.ob('R19e', '%s/%s(%s)' % (fi.key, d[9:], x),
                   excl or is_str,
                   '`%s` renders a value of the evaluation with python\'s '
                   'own conversion where it can still be null / true / '
                   'false (bool is an int for isinstance): the result '
                   'reads None / True / False instead of null / true / '
                   'false. Go through the yaql str() function' %
                   model.norm(c), loc=fi.module.loc(c),
                   construct=model.norm(c))
    rep.floor('python renderings of evaluation values', n, 1)


def _identity_table_exits(repo, fi, call, x):
    """Constants k for which a loop `for k, ... in TABLE: if x is k: return`
    over a module-level constant table runs to its end before `call`."""
    out = set()
    stmt = model.enclosing(call, ast.stmt)
    body = model.strip_docstring(fi.node.body)
    if stmt not in body:
        return out
    for st in body[:body.index(stmt)]:
        if not isinstance(st, ast.For) or st.orelse:
            continue
        var = st.target.elts[0] if isinstance(st.target, ast.Tuple) and \
            st.target.elts else st.target
        if not isinstance(var, ast.Name):
            continue
        if not (len(st.body) == 1 and isinstance(st.body[0], ast.If) and
                not st.body[0].orelse and
                model.norm(st.body[0].test) == '%s is %s' % (x, var.id) and
                isinstance(st.body[0].body[-1], ast.Return)):
            continue
        d = repo.resolve(fi.module, st.iter, model.scope_locals(fi)) \
            if isinstance(st.iter, (ast.Name, ast.Attribute)) else None
        tgt = repo.lookup(d) if d else None
        table = tgt[2] if isinstance(tgt, tuple) and tgt[0] == 'const' \
            else st.iter
        if not isinstance(table, (ast.Tuple, ast.List)):
            continue
        for row in table.elts:
            k = row.elts[0] if isinstance(row, (ast.Tuple, ast.List)) and \
                row.elts and isinstance(st.target, ast.Tuple) else row
            if isinstance(k, ast.Constant) and (
                    k.value is None or isinstance(k.value, bool)):
                out.add(k.value)
    return out


def _declared_without_bool_and_null(uni, fi, name):
    for ov in uni.payload_ov.get(fi.key, ()):
        for p in ov.params:
            if p.name == name:
                cls = (p.type.cls or '').rsplit('.', 1)[-1]
                return cls in ('String', 'Integer', 'Number') and \
                    not p.type.nullable
    return False


def run(repo, rep):
    rep.rule('R19d', 'LAMBDA-PER-MATCH: a regex replacement callback '
             'evaluates the replacement lambda on every path to a result')
    rep.rule('R19e', 'NO-PYTHON-RENDERING-OF-VALUES: builtin str()/repr()/'
             'format() is applied to a value of the evaluation only where '
             'null, true and false are excluded')
    rep.rule('R19a', 'STDLIB-NAMES-RESOLVE: every attribute referenced on '
             'an imported foreign module exists in this interpreter')
    rep.rule('R19b', 'MATCH-API-KINDS: start()/end()/group()/span() take a '
             'group index or name, never a matched value; loops over '
             'groups()/groupdict().items()/values()/keys() unpack the '
             'right number of names')
    rep.rule('R19c', 'SIBLINGS-AGREE: functions documented to differ only '
             'in direction/polarity/side have identical bodies and '
             'declarations modulo that difference')
    rep.trusted += ['the interpreter\'s stdlib modules are inspected for '
                    'attribute existence only']
    rep.explanation = (
        'Necessary API-conformance clauses: a reference to a stdlib name '
        'that does not exist, a match-object method applied to a group '
        '*value*, or siblings that drifted apart each break the documented '
        'behaviour for whole classes of inputs (every pattern with a named '
        'group, every `letters => true`). Agreement with a reference model '
        'on all inputs is not decided.')
    n = check_stdlib_names(repo, rep)
    check_match_api(repo, rep)
    check_siblings(repo, rep)
    rep.rule('R19f', 'TRIM-SET-REACHES-STRIP: every function with a `chars` '
             'parameter hands it unchanged to str.strip / lstrip / rstrip')
    check_trim_set_reaches_strip(repo, rep)
    uni = unimod.Universe(repo)
    check_callbacks_call_the_lambda(repo, rep, uni)
    check_python_rendering_of_values(repo, rep, uni)
    rep.count(foreign_attribute_references=n)
