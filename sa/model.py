"""E1 -- source model of /repo/yaql.

Everything here is a function of the source text (V1): per-module AST, import
alias tables, module constants, class table, qualified-name index of every
function (nested ones included).  Nothing is imported or executed.
"""
import ast
import builtins
import os

REPO = os.environ.get('VERIF_REPO', '/repo')
PKG = 'yaql'


class AnalysisError(Exception):
    """An anchor vanished / a construct is not understood: exit 2, never 1."""


def _positional_names(fnode):
    a = fnode.args
    if a.vararg is not None:
        return []      # extra positionals would change meaning
    return [x.arg for x in a.posonlyargs + a.args]


def _attach_parents(tree):
    for node in ast.walk(tree):
        for child in ast.iter_child_nodes(node):
            child._parent = node
    tree._parent = None


def strip_docstring(body):
    if body and isinstance(body[0], ast.Expr) and isinstance(
            body[0].value, ast.Constant) and isinstance(
            body[0].value.value, str):
        return body[1:]
    return body


_OP_BIN = {'add': ast.Add, 'sub': ast.Sub, 'mul': ast.Mult,
           'truediv': ast.Div, 'floordiv': ast.FloorDiv, 'mod': ast.Mod,
           'pow': ast.Pow, 'lshift': ast.LShift, 'rshift': ast.RShift,
           'and_': ast.BitAnd, 'or_': ast.BitOr, 'xor': ast.BitXor,
           'matmul': ast.MatMult}
_OP_CMP = {'eq': ast.Eq, 'ne': ast.NotEq, 'lt': ast.Lt, 'le': ast.LtE,
           'gt': ast.Gt, 'ge': ast.GtE, 'is_': ast.Is, 'is_not': ast.IsNot}
_OP_UN = {'neg': ast.USub, 'pos': ast.UAdd, 'invert': ast.Invert,
          'not_': ast.Not}


def _operator_normal_form(tree):
    """`operator.add(a, b)` and friends, *called directly*, are the infix
    forms spelled differently: rewrite them so that every rule sees one
    spelling.  (A function of the operator module passed on as a value is
    left alone.)"""
    mods, funcs = set(), {}
    for st in tree.body:
        if isinstance(st, ast.Import):
            for a in st.names:
                if a.name == 'operator':
                    mods.add(a.asname or 'operator')
        elif isinstance(st, ast.ImportFrom) and st.module == 'operator' \
                and not st.level:
            for a in st.names:
                funcs[a.asname or a.name] = a.name
    if not mods and not funcs:
        return tree

    class T(ast.NodeTransformer):
        def visit_Call(self, n):
            self.generic_visit(n)
            f = n.func
            name = None
            if isinstance(f, ast.Attribute) and isinstance(
                    f.value, ast.Name) and f.value.id in mods:
                name = f.attr
            elif isinstance(f, ast.Name) and f.id in funcs:
                name = funcs[f.id]
            if name is None or n.keywords or any(
                    isinstance(a, ast.Starred) for a in n.args):
                return n
            name = name.strip('_') if name.startswith('__') else name
            a = n.args
            new = None
            if name in _OP_BIN and len(a) == 2:
                new = ast.BinOp(left=a[0], op=_OP_BIN[name](), right=a[1])
            elif name in _OP_CMP and len(a) == 2:
                new = ast.Compare(left=a[0], ops=[_OP_CMP[name]()],
                                  comparators=[a[1]])
            elif name in _OP_UN and len(a) == 1:
                new = ast.UnaryOp(op=_OP_UN[name](), operand=a[0])
            elif name == 'contains' and len(a) == 2:
                new = ast.Compare(left=a[1], ops=[ast.In()],
                                  comparators=[a[0]])
            elif name == 'getitem' and len(a) == 2:
                new = ast.Subscript(value=a[0], slice=a[1], ctx=ast.Load())
            elif name == 'truth' and len(a) == 1:
                new = ast.Call(func=ast.Name(id='bool', ctx=ast.Load()),
                               args=[a[0]], keywords=[])
            if new is None:
                return n
            return ast.fix_missing_locations(ast.copy_location(new, n))
    return T().visit(tree)


def _map_repeat_normal_form(tree):
    """map(f, xs, itertools.repeat(c)) is map(lambda e: f(e, c), xs)."""
    mods, names = set(), set()
    for st in tree.body:
        if isinstance(st, ast.Import):
            for a in st.names:
                if a.name == 'itertools':
                    mods.add(a.asname or 'itertools')
        elif isinstance(st, ast.ImportFrom) and st.module == 'itertools':
            for a in st.names:
                if a.name == 'repeat':
                    names.add(a.asname or 'repeat')
    if not mods and not names:
        return tree

    def is_repeat(e):
        if not (isinstance(e, ast.Call) and len(e.args) == 1 and
                not e.keywords):
            return False
        f = e.func
        return (isinstance(f, ast.Attribute) and f.attr == 'repeat' and
                isinstance(f.value, ast.Name) and f.value.id in mods) or (
            isinstance(f, ast.Name) and f.id in names)

    class T(ast.NodeTransformer):
        def visit_Call(self, n):
            self.generic_visit(n)
            if isinstance(n.func, ast.Name) and n.func.id == 'map' and \
                    len(n.args) >= 3 and not n.keywords and all(
                        is_repeat(a) for a in n.args[2:]) and isinstance(
                        n.args[0], (ast.Name, ast.Attribute)):
                extra = [a.args[0] for a in n.args[2:]]
                if not all(isinstance(x, (ast.Name, ast.Constant,
                                          ast.Attribute)) for x in extra):
                    return n
                lam = ast.Lambda(
                    args=ast.arguments(
                        posonlyargs=[], args=[ast.arg(arg='_elem')],
                        kwonlyargs=[], kw_defaults=[], defaults=[]),
                    body=ast.Call(func=n.args[0],
                                  args=[ast.Name(id='_elem',
                                                 ctx=ast.Load())] + extra,
                                  keywords=[]))
                new = ast.Call(func=n.func, args=[lam, n.args[1]],
                               keywords=[])
                return ast.fix_missing_locations(ast.copy_location(new, n))
            return n
    return T().visit(tree)


def _partial_constant_normal_form(tree):
    """A module-level NAME = functools.partial(f, a, ..) that is bound once
    is a pre-bound call: NAME(x, ..) is f(a, .., x, ..)."""
    mods, names = set(), set()
    for st in tree.body:
        if isinstance(st, ast.Import):
            for a in st.names:
                if a.name == 'functools':
                    mods.add(a.asname or 'functools')
        elif isinstance(st, ast.ImportFrom) and st.module == 'functools':
            for a in st.names:
                if a.name == 'partial':
                    names.add(a.asname or 'partial')
    if not mods and not names:
        return tree

    def is_partial(e):
        if not (isinstance(e, ast.Call) and e.args):
            return False
        f = e.func
        return (isinstance(f, ast.Attribute) and f.attr == 'partial' and
                isinstance(f.value, ast.Name) and f.value.id in mods) or (
            isinstance(f, ast.Name) and f.id in names)

    def stable(e):
        if isinstance(e, ast.Constant):
            return True
        if isinstance(e, ast.Name):
            return True
        if isinstance(e, ast.Attribute):
            return stable(e.value)
        return False

    cands = {}
    for st in tree.body:
        if isinstance(st, ast.Assign) and len(st.targets) == 1 and \
                isinstance(st.targets[0], ast.Name) and is_partial(st.value):
            v = st.value
            if all(stable(a) for a in v.args) and all(
                    k.arg and stable(k.value) for k in v.keywords):
                cands[st.targets[0].id] = v
    if not cands:
        return tree
    # bound exactly once in the whole module, never a parameter
    stores = {}
    for n in ast.walk(tree):
        if isinstance(n, ast.Name) and isinstance(n.ctx, (ast.Store,
                                                          ast.Del)):
            stores[n.id] = stores.get(n.id, 0) + 1
        elif isinstance(n, ast.arg):
            stores[n.arg] = stores.get(n.arg, 0) + 2
        elif isinstance(n, (ast.FunctionDef, ast.ClassDef,
                            ast.AsyncFunctionDef)):
            stores[n.name] = stores.get(n.name, 0) + 2
        elif isinstance(n, (ast.Global, ast.Nonlocal)):
            for x in n.names:
                stores[x] = stores.get(x, 0) + 2
    # the names the pre-bound pieces mention must be stable too
    for name in list(cands):
        v = cands[name]
        used = {x.id for a in list(v.args) + [k.value for k in v.keywords]
                for x in ast.walk(a) if isinstance(x, ast.Name)}
        if stores.get(name, 0) != 1 or any(
                stores.get(u, 0) > 1 and not any(
                    isinstance(st, (ast.FunctionDef, ast.ClassDef)) and
                    st.name == u for st in tree.body) for u in used):
            del cands[name]
    if not cands:
        return tree

    class T(ast.NodeTransformer):
        def visit_Call(self, n):
            self.generic_visit(n)
            if isinstance(n.func, ast.Name) and n.func.id in cands and \
                    isinstance(n.func.ctx, ast.Load):
                v = cands[n.func.id]
                import copy
                pre = [copy.deepcopy(a) for a in v.args]
                kw = [copy.deepcopy(k) for k in v.keywords]
                given = {k.arg for k in n.keywords}
                new = ast.Call(func=pre[0], args=pre[1:] + n.args,
                               keywords=[k for k in kw
                                         if k.arg not in given] + n.keywords)
                for x in ast.walk(new):
                    if not hasattr(x, 'lineno'):
                        ast.copy_location(x, n)
                for x in pre + [k.value for k in kw]:
                    for y in ast.walk(x):
                        ast.copy_location(y, n)
                return ast.fix_missing_locations(ast.copy_location(new, n))
            return n
    return T().visit(tree)


def _import_time_decoration_normal_form(tree):
    """Decorators applied by module-level statements after the def:

        specs.name('x')(f)                     (the specs decorators change
        for f, n in ((f1, 'a'), (f2, 'b')):     the function they are given
            specs.name('#' + n)(f)              and return it)
        f = decorator(...)(f)

    are the same as the decorator written on the def (outermost last
    applied).  Loops over a constant table are unrolled first."""
    import copy
    defs = {st.name: st for st in tree.body
            if isinstance(st, (ast.FunctionDef, ast.AsyncFunctionDef))}
    if not defs:
        return tree
    consts = {}
    for st in tree.body:
        if isinstance(st, ast.Assign) and len(st.targets) == 1 and \
                isinstance(st.targets[0], ast.Name):
            consts[st.targets[0].id] = st.value

    def application(st):
        """(function name, decorator expression) of `D(f)` / `f = D(f)`"""
        if isinstance(st, ast.Expr):
            v, rebinding = st.value, None
        elif isinstance(st, ast.Assign) and len(st.targets) == 1 and \
                isinstance(st.targets[0], ast.Name):
            v, rebinding = st.value, st.targets[0].id
        else:
            return None
        if not (isinstance(v, ast.Call) and len(v.args) == 1 and
                not v.keywords and isinstance(v.args[0], ast.Name) and
                v.args[0].id in defs):
            return None
        fname = v.args[0].id
        if rebinding is not None and rebinding != fname:
            return None
        dec = v.func
        if rebinding is None:
            # result dropped: only decorators that work on the function
            # object itself (yaql.language.specs)
            root = dec.func if isinstance(dec, ast.Call) else dec
            if not (isinstance(root, ast.Attribute) and isinstance(
                    root.value, ast.Name) and root.value.id == 'specs'):
                return None
        return fname, dec

    def fold(e):
        class F(ast.NodeTransformer):
            def visit_BinOp(self, n):
                self.generic_visit(n)
                if isinstance(n.op, ast.Add) and isinstance(
                        n.left, ast.Constant) and isinstance(
                        n.right, ast.Constant) and isinstance(
                        n.left.value, str) and isinstance(
                        n.right.value, str):
                    return ast.copy_location(ast.Constant(
                        value=n.left.value + n.right.value), n)
                return n
        return F().visit(e)

    def unroll(st):
        """statements of a for loop over a constant table, or None"""
        if not isinstance(st, ast.For) or st.orelse:
            return None
        it = st.iter
        if isinstance(it, ast.Name) and it.id in consts:
            it = consts[it.id]
        if not isinstance(it, (ast.Tuple, ast.List)):
            return None
        tnames = [st.target.id] if isinstance(st.target, ast.Name) else (
            [t.id for t in st.target.elts] if isinstance(
                st.target, ast.Tuple) and all(
                isinstance(t, ast.Name) for t in st.target.elts) else None)
        if tnames is None:
            return None
        out = []
        for row in it.elts:
            vals = [row] if isinstance(st.target, ast.Name) else (
                list(row.elts) if isinstance(row, (ast.Tuple, ast.List))
                and len(row.elts) == len(tnames) else None)
            if vals is None or not all(isinstance(
                    v, (ast.Name, ast.Constant, ast.Attribute))
                    for v in vals):
                return None
            env = dict(zip(tnames, vals))

            class S(ast.NodeTransformer):
                def visit_Name(self, n):
                    if n.id in env and isinstance(n.ctx, ast.Load):
                        return ast.copy_location(copy.deepcopy(env[n.id]),
                                                 n)
                    return n
            for b in st.body:
                out.append(fold(S().visit(copy.deepcopy(b))))
        return out

    changed = False
    body = []
    for st in tree.body:
        stmts = unroll(st)
        if stmts is not None and stmts and all(
                application(x) is not None for x in stmts):
            pass
        elif application(st) is not None:
            stmts = [st]
        else:
            body.append(st)
            continue
        for x in stmts:
            fname, dec = application(x)
            d = copy.deepcopy(dec)
            for y in ast.walk(d):
                ast.copy_location(y, defs[fname])
            defs[fname].decorator_list.insert(0, d)
        body.append(ast.copy_location(ast.Pass(), st))
        changed = True
    if changed:
        tree.body = body
        ast.fix_missing_locations(tree)
    return tree


def _local_alias_normal_form(tree):
    """Inside a function, a name bound once, at the top level of the body,
    to a pure attribute chain (`lt = outer.operator_lt`, `no_value =
    utils.NO_VALUE`) or to functools.partial(f, a, ..) of stable pieces is
    an abbreviation: its uses are rewritten to what it abbreviates (in the
    function itself and in nested scopes that bind neither the name nor
    what the chain starts from)."""
    import copy
    SCOPES = (ast.FunctionDef, ast.AsyncFunctionDef, ast.Lambda)

    def own_nodes(f):
        """nodes of f's own scope (nested defs/lambdas/classes: the node
        itself only; decorators and defaults belong to the outer scope)"""
        stack = list(f.body) if not isinstance(f, ast.Lambda) else [f.body]
        while stack:
            n = stack.pop()
            yield n
            if isinstance(n, SCOPES):
                stack.extend(getattr(n, 'decorator_list', []))
                stack.extend(n.args.defaults)
                stack.extend(d for d in n.args.kw_defaults if d is not None)
                continue
            if isinstance(n, ast.ClassDef):
                stack.extend(n.decorator_list)
                stack.extend(n.bases)
                stack.extend(n.body)     # class bodies: methods are SCOPES
                continue
            stack.extend(ast.iter_child_nodes(n))

    def bound_in(f):
        a = f.args
        out = {x.arg for x in a.posonlyargs + a.args + a.kwonlyargs}
        if a.vararg:
            out.add(a.vararg.arg)
        if a.kwarg:
            out.add(a.kwarg.arg)
        for n in own_nodes(f):
            if isinstance(n, ast.Name) and isinstance(
                    n.ctx, (ast.Store, ast.Del)):
                out.add(n.id)
            elif isinstance(n, (ast.FunctionDef, ast.AsyncFunctionDef,
                                ast.ClassDef)):
                out.add(n.name)
            elif isinstance(n, ast.ExceptHandler) and n.name:
                out.add(n.name)
            elif isinstance(n, (ast.Import, ast.ImportFrom)):
                for al in n.names:
                    out.add((al.asname or al.name).split('.')[0])
            elif isinstance(n, (ast.Global, ast.Nonlocal)):
                out.update(n.names)
        return out

    def store_count(f, name):
        a = f.args
        c = sum(2 for x in a.posonlyargs + a.args + a.kwonlyargs
                if x.arg == name)
        for x in (a.vararg, a.kwarg):
            if x is not None and x.arg == name:
                c += 2
        for n in own_nodes(f):
            if isinstance(n, ast.Name) and n.id == name and isinstance(
                    n.ctx, (ast.Store, ast.Del)):
                c += 1
            elif isinstance(n, (ast.FunctionDef, ast.AsyncFunctionDef,
                                ast.ClassDef)) and n.name == name:
                c += 2
            elif isinstance(n, ast.ExceptHandler) and n.name == name:
                c += 2
            elif isinstance(n, (ast.Global, ast.Nonlocal)) and \
                    name in n.names:
                c += 2
            elif isinstance(n, (ast.Import, ast.ImportFrom)) and any(
                    (al.asname or al.name).split('.')[0] == name
                    for al in n.names):
                c += 2
        return c

    def chain_root(e):
        while isinstance(e, ast.Attribute):
            e = e.value
        return e.id if isinstance(e, ast.Name) else None

    def is_partial(e):
        return isinstance(e, ast.Call) and e.args and unparse_safe(
            e.func) in ('functools.partial', 'partial')

    def unparse_safe(e):
        try:
            return ast.unparse(e)
        except Exception:
            return ''

    def stable(e):
        return isinstance(e, ast.Constant) or (
            isinstance(e, (ast.Name, ast.Attribute)) and
            chain_root(e) is not None)

    def process(f):
        if isinstance(f, ast.Lambda):
            return
        cands = {}
        for st in f.body:
            if not (isinstance(st, ast.Assign) and len(st.targets) == 1 and
                    isinstance(st.targets[0], ast.Name)):
                continue
            n, v = st.targets[0].id, st.value
            if isinstance(v, ast.Attribute) and chain_root(v) is not None:
                roots = {chain_root(v)}
                kind = 'chain'
            elif is_partial(v) and all(stable(a) for a in v.args) and all(
                    k.arg and stable(k.value) for k in v.keywords):
                roots = {chain_root(a) for a in list(v.args) + [
                    k.value for k in v.keywords]
                    if not isinstance(a, ast.Constant)}
                kind = 'partial'
            else:
                continue
            if n in roots or store_count(f, n) != 1:
                continue
            # what it starts from is not re-bound in the function (a
            # parameter, or a local bound once before the abbreviation)
            ok = True
            for r in roots:
                c = store_count(f, r)
                if c == 0 or c == 2:
                    continue
                if c == 1 and any(
                        isinstance(p, ast.Assign) and any(
                            isinstance(t, ast.Name) and t.id == r
                            for t in p.targets)
                        for p in f.body[:f.body.index(st)]):
                    continue
                ok = False
            if not ok:
                continue
            if kind == 'chain':
                # the attribute itself is not assigned in the function
                text = unparse_safe(v)
                if any(isinstance(x, ast.Attribute) and isinstance(
                        x.ctx, (ast.Store, ast.Del)) and
                        (text == unparse_safe(x) or
                         text.startswith(unparse_safe(x) + '.'))
                        for x in ast.walk(f)):
                    continue
            cands[n] = (kind, v, roots, st)
        if not cands:
            return

        def rewrite(scope, blocked):
            """rewrite uses in scope's own nodes; recurse into nested
            scopes that bind none of the names involved"""
            class T(ast.NodeTransformer):
                def visit_FunctionDef(self, n):
                    return self._scope(n)
                visit_AsyncFunctionDef = visit_FunctionDef
                visit_Lambda = visit_FunctionDef

                def _scope(self, n):
                    if n is scope:
                        return self.generic_visit(n)
                    # decorators/defaults are evaluated in this scope
                    for fld in ('decorator_list',):
                        if hasattr(n, fld):
                            setattr(n, fld, [self.visit(d)
                                             for d in getattr(n, fld)])
                    n.args.defaults = [self.visit(d)
                                       for d in n.args.defaults]
                    n.args.kw_defaults = [
                        self.visit(d) if d is not None else None
                        for d in n.args.kw_defaults]
                    inner_bound = bound_in(n)
                    rewrite(n, blocked | inner_bound)
                    return n

                def visit_Call(self, n):
                    if isinstance(n.func, ast.Name) and isinstance(
                            n.func.ctx, ast.Load) and n.func.id in cands:
                        kind, v, roots, st = cands[n.func.id]
                        if kind == 'partial' and n.func.id not in blocked \
                                and not (roots & blocked):
                            n.args = [self.visit(a) for a in n.args]
                            n.keywords = [self.visit(k) for k in n.keywords]
                            pre = [copy.deepcopy(a) for a in v.args]
                            kw = [copy.deepcopy(k) for k in v.keywords]
                            given = {k.arg for k in n.keywords}
                            new = ast.Call(
                                func=pre[0], args=pre[1:] + n.args,
                                keywords=[k for k in kw
                                          if k.arg not in given] +
                                n.keywords)
                            for x in pre + [k.value for k in kw]:
                                for y in ast.walk(x):
                                    ast.copy_location(y, n)
                            return ast.fix_missing_locations(
                                ast.copy_location(new, n))
                    return self.generic_visit(n)

                def visit_Name(self, n):
                    if isinstance(n.ctx, ast.Load) and n.id in cands and \
                            n.id not in blocked:
                        kind, v, roots, st = cands[n.id]
                        if kind == 'chain' and not (roots & blocked):
                            new = copy.deepcopy(v)
                            for y in ast.walk(new):
                                ast.copy_location(y, n)
                            return new
                    return n
            if isinstance(scope, ast.Lambda):
                scope.body = T().visit(scope.body)
            else:
                scope.body = [T().visit(x) for x in scope.body]

        # partial abbreviations are only rewritten when every use is a call
        for n, (kind, v, roots, st) in list(cands.items()):
            if kind != 'partial':
                continue
            loads = [x for x in ast.walk(f) if isinstance(x, ast.Name) and
                     x.id == n and isinstance(x.ctx, ast.Load)]
            calls = [x for x in ast.walk(f) if isinstance(x, ast.Call) and
                     isinstance(x.func, ast.Name) and x.func.id == n]
            if len(loads) != len(calls):
                del cands[n]
        if cands:
            rewrite(f, set())
            # an abbreviation nothing reads any more is gone
            for n, (kind, v, roots, st) in cands.items():
                if not any(isinstance(x, ast.Name) and x.id == n and
                           isinstance(x.ctx, ast.Load)
                           for x in ast.walk(f)) and st in f.body:
                    f.body[f.body.index(st)] = ast.copy_location(
                        ast.Pass(), st)

    for f in [n for n in ast.walk(tree)
              if isinstance(n, (ast.FunctionDef, ast.AsyncFunctionDef))]:
        process(f)
    return ast.fix_missing_locations(tree)


def _return_ifexp_normal_form(tree):
    """`return a if c else b` is `if c: return a` / `else: return b`: the
    two values are alternatives of one another on the statement graph."""
    class T(ast.NodeTransformer):
        def visit_Return(self, n):
            v = n.value
            if isinstance(v, ast.IfExp) and any(
                    isinstance(x, ast.Call) for x in ast.walk(v.body)) and \
                    any(isinstance(x, ast.Call) for x in ast.walk(v.orelse)):
                a = ast.copy_location(ast.Return(value=v.body), n)
                b = ast.copy_location(ast.Return(value=v.orelse), n)
                new = ast.If(test=v.test, body=[self.visit_Return(a)],
                             orelse=[self.visit_Return(b)])
                return ast.copy_location(new, n)
            return n

        def visit_Lambda(self, n):
            return n
    return ast.fix_missing_locations(T().visit(tree))


class FuncInfo:
    __slots__ = ('module', 'qualname', 'node', 'cls', 'parent_func',
                 'is_method')

    def __init__(self, module, qualname, node, cls, parent_func):
        self.module = module
        self.qualname = qualname
        self.node = node
        self.cls = cls              # enclosing ClassInfo or None
        self.parent_func = parent_func  # enclosing FuncInfo or None
        self.is_method = False

    @property
    def key(self):
        return '%s:%s' % (self.module.name, self.qualname)

    @property
    def name(self):
        return self.node.name

    def params(self):
        a = self.node.args
        names = [x.arg for x in a.posonlyargs + a.args]
        return names

    def __repr__(self):
        return '<Func %s>' % self.key


class AliasFuncInfo(FuncInfo):
    """`t_X = staticmethod(_x_token)` in a class body: the module-level
    function seen under the name the class gives it."""
    __slots__ = ('alias', 'target')

    @property
    def name(self):
        return self.alias


class ClassInfo:
    __slots__ = ('module', 'qualname', 'node', 'bases', 'methods')

    def __init__(self, module, qualname, node):
        self.module = module
        self.qualname = qualname
        self.node = node
        self.bases = []     # resolved dotted names
        self.methods = {}   # name -> FuncInfo

    @property
    def key(self):
        return '%s:%s' % (self.module.name, self.qualname)

    @property
    def dotted(self):
        return '%s.%s' % (self.module.name, self.qualname)


class Module:
    def __init__(self, repo, name, path):
        self.repo = repo
        self.name = name
        self.path = path
        with open(path, encoding='utf-8') as f:
            self.src = f.read()
        self.tree = _return_ifexp_normal_form(_local_alias_normal_form(
            _import_time_decoration_normal_form(
                _partial_constant_normal_form(_map_repeat_normal_form(
                    _operator_normal_form(
                        ast.parse(self.src, filename=path)))))))
        _attach_parents(self.tree)
        self.imports = {}     # local alias -> dotted target
        self.constants = {}   # top-level NAME = <expr>  (last assignment)
        self.functions = {}   # qualname -> FuncInfo
        self.classes = {}     # qualname -> ClassInfo
        self.toplevel = set()
        self._index()

    @property
    def relpath(self):
        return os.path.relpath(self.path, self.repo.root)

    def _index(self):
        for node in self.tree.body:
            if isinstance(node, ast.Import):
                for a in node.names:
                    if a.asname:
                        self.imports[a.asname] = a.name
                    else:
                        top = a.name.split('.')[0]
                        self.imports[top] = top
            elif isinstance(node, ast.ImportFrom):
                mod = node.module or ''
                if node.level:
                    base = self.name.split('.')
                    if not self.path.endswith('__init__.py'):
                        base = base[:-1]
                    base = base[:len(base) - (node.level - 1)]
                    mod = '.'.join(base + ([mod] if mod else []))
                for a in node.names:
                    self.imports[a.asname or a.name] = mod + '.' + a.name
            elif isinstance(node, ast.Assign):
                for t in node.targets:
                    if isinstance(t, ast.Name):
                        self.constants[t.id] = node.value
                        self.toplevel.add(t.id)
                    elif isinstance(t, (ast.Tuple, ast.List)) and all(
                            isinstance(x, ast.Name) for x in t.elts):
                        # A, B, C = x, y, z   /   A, B, C = range(3)
                        vals = None
                        v = node.value
                        if isinstance(v, (ast.Tuple, ast.List)) and len(
                                v.elts) == len(t.elts):
                            vals = list(v.elts)
                        elif isinstance(v, ast.Call) and isinstance(
                                v.func, ast.Name) and v.func.id == 'range' \
                                and len(v.args) == 1 and isinstance(
                                    v.args[0], ast.Constant) and \
                                v.args[0].value == len(t.elts):
                            vals = [ast.copy_location(ast.Constant(i), v)
                                    for i in range(len(t.elts))]
                        for i, x in enumerate(t.elts):
                            self.toplevel.add(x.id)
                            if vals is not None:
                                self.constants[x.id] = vals[i]
            elif isinstance(node, (ast.FunctionDef, ast.ClassDef)):
                self.toplevel.add(node.name)
        self._walk_defs(self.tree.body, '', None, None)
        self._class_aliases()

    def _class_aliases(self):
        for ci in list(self.classes.values()):
            for st in ci.node.body:
                if not (isinstance(st, ast.Assign) and len(
                        st.targets) == 1 and isinstance(
                        st.targets[0], ast.Name)):
                    continue
                v = st.value
                if isinstance(v, ast.Call) and isinstance(
                        v.func, ast.Name) and v.func.id in (
                        'staticmethod', 'classmethod') and len(
                        v.args) == 1:
                    v = v.args[0]
                if not isinstance(v, ast.Name):
                    continue
                tgt = self.functions.get(v.id)
                nm = st.targets[0].id
                if tgt is None or tgt.cls is not None or \
                        tgt.parent_func is not None or nm in ci.methods:
                    continue
                a = AliasFuncInfo(self, '%s.%s' % (ci.qualname, nm),
                                  tgt.node, ci, None)
                a.alias = nm
                a.target = tgt
                a.is_method = True
                self.functions[a.qualname] = a
                ci.methods[nm] = a

    def _walk_defs(self, body, prefix, cls, pfunc, direct_cls=None):
        for node in body:
            self._walk_node(node, prefix, cls, pfunc, direct_cls)

    def _walk_node(self, node, prefix, cls, pfunc, direct_cls):
        if isinstance(node, (ast.FunctionDef, ast.AsyncFunctionDef)):
            q = prefix + node.name
            fi = FuncInfo(self, q, node, cls, pfunc)
            # keep the first definition under the plain name, later ones get
            # a numeric suffix (none in yaql today)
            k = q
            n = 2
            while k in self.functions:
                k = '%s#%d' % (q, n)
                n += 1
            fi.qualname = k
            fi.is_method = direct_cls is not None
            self.functions[k] = fi
            if direct_cls is not None:
                direct_cls.methods.setdefault(node.name, fi)
            self._walk_defs(node.body, k + '.', cls, fi, None)
        elif isinstance(node, ast.ClassDef):
            q = prefix + node.name
            ci = ClassInfo(self, q, node)
            self.classes[q] = ci
            self._walk_defs(node.body, q + '.', ci, pfunc, ci)
        else:
            for child in ast.iter_child_nodes(node):
                if isinstance(child, (ast.stmt, ast.excepthandler)) or \
                        isinstance(child, ast.match_case):
                    self._walk_node(child, prefix, cls, pfunc, direct_cls)

    def func(self, qualname):
        fi = self.functions.get(qualname)
        if fi is None:
            raise AnalysisError('anchor vanished: function %s:%s' % (
                self.name, qualname))
        return fi

    def cls(self, qualname):
        ci = self.classes.get(qualname)
        if ci is None:
            raise AnalysisError('anchor vanished: class %s:%s' % (
                self.name, qualname))
        return ci

    def line(self, node):
        return getattr(node, 'lineno', 0)

    def loc(self, node):
        return '%s:%d' % (self.relpath, getattr(node, 'lineno', 0))


class Repo:
    def __init__(self, root=None, include_tests=False):
        self.root = root or REPO
        self.modules = {}
        pkg_root = os.path.join(self.root, PKG)
        if not os.path.isdir(pkg_root):
            raise AnalysisError('no package at %s' % pkg_root)
        for dirpath, dirnames, filenames in os.walk(pkg_root):
            dirnames.sort()
            rel = os.path.relpath(dirpath, self.root)
            parts = rel.split(os.sep)
            if not include_tests and 'tests' in parts:
                continue
            for fn in sorted(filenames):
                if not fn.endswith('.py'):
                    continue
                modparts = parts + ([] if fn == '__init__.py'
                                    else [fn[:-3]])
                name = '.'.join(modparts)
                try:
                    self.modules[name] = Module(
                        self, name, os.path.join(dirpath, fn))
                except SyntaxError as e:
                    raise AnalysisError('cannot parse %s: %s' % (fn, e))
        self._resolve_class_bases()
        self._keyword_call_normal_form()

    def _keyword_call_normal_form(self):
        """f(a, c=3, b=2) on a function of the repository whose parameters
        are (a, b, c): the keywords that name the next positional
        parameters are positional arguments.  Only callees that resolve
        exactly -- module-level functions and self.method(..) inside the
        class that defines or inherits the method -- and only parameters
        that are not keyword-only.  (Constructor calls are left alone: the
        declarations `Lambda(with_context=True)` are read by keyword.)"""
        for mod in self.modules.values():
            for c in ast.walk(mod.tree):
                if not (isinstance(c, ast.Call) and c.keywords) or any(
                        k.arg is None for k in c.keywords) or any(
                        isinstance(a, ast.Starred) for a in c.args):
                    continue
                names = None
                f = c.func
                fn = enclosing(c, (ast.FunctionDef, ast.AsyncFunctionDef))
                local = set()
                scope = fn
                while scope is not None:
                    local |= local_names_of(scope)
                    scope = enclosing(scope, (ast.FunctionDef,
                                              ast.AsyncFunctionDef))
                if isinstance(f, ast.Attribute) and isinstance(
                        f.value, ast.Name) and fn is not None and \
                        fn.args.args and f.value.id == fn.args.args[0].arg:
                    cd = getattr(fn, '_parent', None)
                    ci = next((x for x in mod.classes.values()
                               if x.node is cd), None) \
                        if isinstance(cd, ast.ClassDef) else None
                    m = self.find_method(ci, f.attr) if ci else None
                    if m is not None and not isinstance(
                            m, AliasFuncInfo) and not any(
                            norm(d) in ('staticmethod', 'classmethod',
                                        'property')
                            for d in m.node.decorator_list):
                        # overriding subclasses may order them differently
                        others = [k for k in self.all_classes()
                                  if f.attr in k.methods and
                                  k.methods[f.attr] is not m]
                        sig = _positional_names(m.node)[1:]
                        if all(_positional_names(
                                k.methods[f.attr].node)[1:] == sig
                                for k in others):
                            names = sig
                elif isinstance(f, (ast.Name, ast.Attribute)):
                    d = self.dotted(mod, f, local)
                    tgt = self.lookup(d) if d else None
                    if isinstance(tgt, FuncInfo) and tgt.cls is None \
                            and tgt.parent_func is None and not isinstance(
                                tgt, AliasFuncInfo) and \
                            not tgt.node.decorator_list:
                        names = _positional_names(tgt.node)
                if not names:
                    continue
                kw = {k.arg: k for k in c.keywords}
                while len(c.args) < len(names) and \
                        names[len(c.args)] in kw:
                    k = kw.pop(names[len(c.args)])
                    c.keywords.remove(k)
                    k.value._parent = c
                    c.args.append(k.value)

    # -- lookup ---------------------------------------------------------
    def module(self, name):
        m = self.modules.get(name)
        if m is None:
            raise AnalysisError('anchor vanished: module %s' % name)
        return m

    def func(self, key):
        mod, q = key.split(':')
        return self.module(mod).func(q)

    def cls(self, key):
        mod, q = key.split(':')
        return self.module(mod).cls(q)

    def all_functions(self):
        for m in self.modules.values():
            for f in m.functions.values():
                yield f

    def all_classes(self):
        for m in self.modules.values():
            for c in m.classes.values():
                yield c

    # -- name resolution ------------------------------------------------
    def dotted(self, module, expr, local_names=()):
        """Dotted name an expression refers to, resolved through the import
        table of `module`; None when it is not a (possibly dotted) name or its
        root is a local variable."""
        parts = []
        e = expr
        while isinstance(e, ast.Attribute):
            parts.append(e.attr)
            e = e.value
        if not isinstance(e, ast.Name):
            return None
        root = e.id
        if root in local_names:
            return None
        parts.reverse()
        if root in module.imports:
            base = module.imports[root]
        elif root in module.toplevel:
            base = module.name + '.' + root
        elif hasattr(builtins, root):
            base = 'builtins.' + root
        else:
            return None
        return '.'.join([base] + parts)

    def resolve(self, module, expr, local_names=(), depth=6):
        """Like dotted() but follows module-level constant aliases
        (utils.MappingType -> collections.abc.Mapping)."""
        d = self.dotted(module, expr, local_names)
        return self.deref(d, depth)

    def deref(self, d, depth=6):
        while d and depth > 0:
            depth -= 1
            hit = self._split_module(d)
            if hit is None:
                return d
            mod, rest = hit
            if not rest:
                return d
            head = rest[0]
            if head in mod.constants and head not in mod.functions and \
                    head not in mod.classes:
                tgt = self.dotted(mod, mod.constants[head])
                if tgt is None:
                    return d
                d = '.'.join([tgt] + rest[1:])
                continue
            if head in mod.imports and head not in mod.toplevel:
                d = '.'.join([mod.imports[head]] + rest[1:])
                continue
            return d
        return d

    def _split_module(self, d):
        parts = d.split('.')
        for i in range(len(parts), 0, -1):
            name = '.'.join(parts[:i])
            if name in self.modules:
                return self.modules[name], parts[i:]
        return None

    def lookup(self, d):
        """dotted name -> FuncInfo | ClassInfo | ('const', module, expr) |
        None"""
        if not d:
            return None
        hit = self._split_module(d)
        if hit is None:
            return None
        mod, rest = hit
        if not rest:
            return mod
        q = '.'.join(rest)
        if q in mod.functions:
            return mod.functions[q]
        if q in mod.classes:
            return mod.classes[q]
        if len(rest) == 2 and rest[0] in mod.classes:
            ci = self.find_method(mod.classes[rest[0]], rest[1])
            if ci:
                return ci
        if len(rest) == 1 and rest[0] in mod.constants:
            return ('const', mod, mod.constants[rest[0]])
        return None

    # -- classes --------------------------------------------------------
    def _resolve_class_bases(self):
        for c in self.all_classes():
            for b in c.node.bases:
                d = self.resolve(c.module, b)
                c.bases.append(d or ast.unparse(b))

    def mro(self, ci):
        """Linearised ancestor list (repo classes as ClassInfo, foreign ones
        as dotted strings); simple DFS left-to-right without duplicates is
        enough for yaql's hierarchies."""
        out = []
        seen = set()

        def rec(c):
            if isinstance(c, ClassInfo):
                if c.key in seen:
                    return
                seen.add(c.key)
                out.append(c)
                for b in c.bases:
                    tgt = self.lookup(b)
                    rec(tgt if isinstance(tgt, ClassInfo) else b)
            else:
                if c not in seen:
                    seen.add(c)
                    out.append(c)
        rec(ci)
        return out

    def is_subclass(self, ci, dotted_base):
        for c in self.mro(ci):
            if isinstance(c, ClassInfo):
                if c.dotted == dotted_base:
                    return True
            elif c == dotted_base:
                return True
        return False

    def find_method(self, ci, name):
        for c in self.mro(ci):
            if isinstance(c, ClassInfo) and name in c.methods:
                return c.methods[name]
        return None

    def subclasses(self, dotted_base):
        return [c for c in self.all_classes()
                if self.is_subclass(c, dotted_base)]


# -- small AST helpers ----------------------------------------------------

def norm(node):
    """Normalised construct text (position independent)."""
    try:
        return ast.unparse(node)
    except Exception:
        return ast.dump(node)


def enclosing(node, types):
    n = getattr(node, '_parent', None)
    while n is not None and not isinstance(n, types):
        n = getattr(n, '_parent', None)
    return n


def enclosing_function(node):
    return enclosing(node, (ast.FunctionDef, ast.AsyncFunctionDef, ast.Lambda))


def walk_shallow(node, stop=(ast.FunctionDef, ast.AsyncFunctionDef,
                             ast.Lambda, ast.ClassDef)):
    """ast.walk that does not descend into nested function/class bodies
    (the nested def node itself is yielded)."""
    stack = [node]
    first = True
    while stack:
        n = stack.pop()
        yield n
        if not first and isinstance(n, stop):
            # decorators and default values of a nested def run in the
            # enclosing scope, when the def statement is executed
            if isinstance(n, (ast.FunctionDef, ast.AsyncFunctionDef)):
                extra = list(n.decorator_list) + [
                    d for d in n.args.defaults + n.args.kw_defaults
                    if d is not None]
                stack.extend(reversed(extra))
            elif isinstance(n, ast.ClassDef):
                stack.extend(reversed(list(n.decorator_list)))
            continue
        if first and isinstance(n, (ast.FunctionDef,
                                    ast.AsyncFunctionDef)):
            # the root's own decorators and defaults belong to the scope
            # that defines it
            first = False
            stack.extend(reversed(list(n.body)))
            continue
        first = False
        stack.extend(reversed(list(ast.iter_child_nodes(n))))


def calls_in(node, shallow=False):
    it = walk_shallow(node) if shallow else ast.walk(node)
    return [n for n in it if isinstance(n, ast.Call)]


def names_loaded(node):
    return {n.id for n in ast.walk(node)
            if isinstance(n, ast.Name) and isinstance(n.ctx, ast.Load)}


_LOCALS_CACHE = {}


def local_names_of(func_node):
    """Parameters and every name bound in the function body (not nested)."""
    hit = _LOCALS_CACHE.get(id(func_node))
    if hit is not None and hit[0] is func_node:
        return hit[1]
    names = _local_names_of(func_node)
    _LOCALS_CACHE[id(func_node)] = (func_node, names)
    return names


def _local_names_of(func_node):
    names = set()
    if isinstance(func_node, ast.Lambda):
        a = func_node.args
        body = [func_node.body]
    else:
        a = func_node.args
        body = func_node.body
    for x in a.posonlyargs + a.args + a.kwonlyargs:
        names.add(x.arg)
    if a.vararg:
        names.add(a.vararg.arg)
    if a.kwarg:
        names.add(a.kwarg.arg)
    for st in body:
        for n in walk_shallow(st):
            if isinstance(n, ast.Name) and isinstance(
                    n.ctx, (ast.Store, ast.Del)):
                names.add(n.id)
            elif isinstance(n, (ast.FunctionDef, ast.ClassDef)):
                names.add(n.name)
            elif isinstance(n, ast.ExceptHandler) and n.name:
                names.add(n.name)
            elif isinstance(n, (ast.Import, ast.ImportFrom)):
                for al in n.names:
                    names.add((al.asname or al.name).split('.')[0])
    return names


_SCOPE_CACHE = {}


def scope_locals(fi):
    """Names local to fi or to any enclosing function (closure)."""
    hit = _SCOPE_CACHE.get(id(fi))
    if hit is not None and hit[0] is fi:
        return hit[1]
    names = _scope_locals(fi)
    _SCOPE_CACHE[id(fi)] = (fi, names)
    return names


def _scope_locals(fi):
    names = set()
    f = fi
    while f is not None:
        names |= local_names_of(f.node)
        f = f.parent_func
    return names
