"""Obligations, floors, evidence, known findings, exit codes."""
import json
import os
import sys
import time

VERIF = os.path.dirname(os.path.dirname(os.path.abspath(__file__)))
EVIDENCE_DIR = os.environ.get('VERIF_EVIDENCE_DIR') or os.path.join(
    VERIF, 'evidence')
KNOWN_FILE = os.path.join(VERIF, 'known_findings.json')


def load_known(pid):
    try:
        with open(KNOWN_FILE) as f:
            data = json.load(f)
    except FileNotFoundError:
        return []
    return [e for e in data.get('findings', []) if e.get('property') == pid]


class Report:
    def __init__(self, pid, tier='quick', level='other', title=''):
        self.pid = pid
        self.tier = tier
        self.level = level
        self.title = title
        self.t0 = time.time()
        try:
            self.seed = int(os.environ.get('VERIF_SEED', '0'))
        except ValueError:
            self.seed = 0
        self.obligations = []     # dicts
        self.violations = []      # dicts (not discharged, before known-match)
        self.floors = []
        self.analysed = {}
        self.notes = []
        self.errors = []          # analysis errors (exit 2)
        self.rules = {}           # rule id -> text
        self.trusted = []
        self.assumptions = []
        self.explanation = ''
        self.extra_cov = {}
        self._nontrivial = set()
        self.arbiter = None       # (rule, site) -> note | None
        self.floor_arbiter = None  # what -> note | None

    # -- recording ------------------------------------------------------
    def rule(self, rid, text):
        self.rules[rid] = text

    def ob(self, rule, site, ok, detail='', loc='', construct='',
           nontrivial=True, path=None):
        """Record one obligation.  `site` is the stable key of the instance
        (module:qualname[/what]) -- never a line number."""
        if not ok and self.arbiter is not None:
            note = self.arbiter(rule, site)
            if note:
                ok = True
                detail = note
        rec = {'rule': rule, 'site': site, 'verdict': 'ok' if ok else 'FAIL'}
        if detail:
            rec['detail'] = detail
        if loc:
            rec['loc'] = loc
        if construct:
            rec['construct'] = construct
        self.obligations.append(rec)
        if nontrivial:
            self._nontrivial.add((rule, site, construct))
        if not ok:
            v = dict(rec)
            if path:
                v['path'] = path
            self.violations.append(v)
        return ok

    def floor(self, what, count, minimum):
        self.floors.append({'what': what, 'count': count,
                            'minimum': minimum})
        if count < minimum and self.floor_arbiter is not None:
            note = self.floor_arbiter(what)
            if note:
                self.notes.append('floor %s not met (%d < %d): %s' % (
                    what, count, minimum, note))
                return
        if count < minimum:
            self.errors.append(
                'floor not met: %s = %d < %d (a rule matching too few sites '
                'passes vacuously; the anchor it was tied to moved)' % (
                    what, count, minimum))

    def error(self, msg):
        self.errors.append(msg)

    def note(self, msg):
        self.notes.append(msg)

    def count(self, **kw):
        for k, v in kw.items():
            self.analysed[k] = v

    # -- finishing ------------------------------------------------------
    def finish(self):
        known = load_known(self.pid)
        active = {}
        for e in known:
            if e.get('status') == 'known':
                active[(e['rule'], e['site'])] = e
        printed_known = []
        real = []
        for v in self.violations:
            k = (v['rule'], v['site'])
            if k in active:
                if k not in [p[0] for p in printed_known]:
                    printed_known.append((k, active[k], v))
            else:
                real.append(v)

        out = []
        out.append('== %s %s [%s tier]' % (self.pid, self.title, self.tier))
        for k, v in sorted(self.analysed.items()):
            out.append('   analysed %-28s %s' % (k, v))
        per_rule = {}
        for o in self.obligations:
            d = per_rule.setdefault(o['rule'], [0, 0])
            d[0] += 1
            if o['verdict'] == 'ok':
                d[1] += 1
        for r in sorted(per_rule):
            out.append('   rule %-8s obligations %4d  discharged %4d   %s' % (
                r, per_rule[r][0], per_rule[r][1],
                self.rules.get(r, '')[:90]))
        for f in self.floors:
            out.append('   floor %-40s %d (min %d)' % (
                f['what'], f['count'], f['minimum']))
        for n in self.notes:
            out.append('   note: ' + n)
        print('\n'.join(out))

        code = 0
        if self.errors:
            for e in self.errors:
                print('ANALYSIS-ERROR property=%s %s' % (self.pid, e))
            code = 2
        for k, e, v in printed_known:
            print('KNOWN-FINDING: property=%s rule=%s site=%s %s' % (
                self.pid, k[0], k[1], e.get('what', '')))
        vdir = os.path.join(EVIDENCE_DIR, 'violations')
        if real:
            os.makedirs(vdir, exist_ok=True)
        # remove stale replay files of this property
        if os.path.isdir(vdir):
            for fn in os.listdir(vdir):
                if fn.startswith(self.pid + '-'):
                    try:
                        os.unlink(os.path.join(vdir, fn))
                    except OSError:
                        pass
        seen = set()
        n = 0
        for v in real:
            key = (v['rule'], v['site'], v.get('construct', ''))
            if key in seen:
                continue
            seen.add(key)
            n += 1
            path = os.path.join(vdir, '%s-%d.json' % (self.pid, n))
            rep = dict(v)
            rep['property'] = self.pid
            rep['rule_text'] = self.rules.get(v['rule'], '')
            with open(path, 'w') as f:
                json.dump(rep, f, indent=1, sort_keys=True)
            print('VIOLATION property=%s replay=%s' % (self.pid, path))
            print('   %s %s at %s: %s' % (
                v['rule'], v['site'], v.get('loc', '?'),
                v.get('detail', '')))
            if v.get('construct'):
                print('   construct: %s' % v['construct'][:200])
        if real and code == 0:
            code = 1
        elif real:
            code = 1  # a decided violation outranks an analysis gap
        self._write_evidence(len(real), printed_known)
        if code == 0:
            print('OK property=%s obligations=%d discharged=%d known=%d' % (
                self.pid, len(self.obligations),
                sum(1 for o in self.obligations if o['verdict'] == 'ok'),
                len(printed_known)))
        return code

    def _write_evidence(self, nviol, known):
        os.makedirs(EVIDENCE_DIR, exist_ok=True)
        disc = sum(1 for o in self.obligations if o['verdict'] == 'ok')
        samples = []
        seen_rules = {}
        for o in self.obligations:
            c = seen_rules.setdefault(o['rule'], 0)
            if c < 3 or o['verdict'] != 'ok':
                samples.append(o)
                seen_rules[o['rule']] = c + 1
            if len(samples) >= 60:
                break
        cov = {
            'obligations': len(self.obligations),
            'discharged': disc,
            'evaluations': max(1, len(self.obligations)),
            'distinct_nontrivial': len(self._nontrivial),
            'rule': 'one obligation per (rule, site) instance enumerated '
                    'from /repo source on this run; non-trivial = premise '
                    'of the rule holds at the site (the site exists and is '
                    'of the kind the rule constrains); distinct = distinct '
                    '(rule, site, construct) triples. Rules: ' +
                    '; '.join('%s: %s' % kv for kv in sorted(
                        self.rules.items())),
            'samples': samples or [{'note': 'no obligations'}],
            'explanation': self.explanation or self.title,
            'trusted_base': self.trusted,
            'checker_cmd': './check %s --tier %s' % (self.pid, self.tier),
            'analysed': self.analysed,
            'floors': self.floors,
            'known_findings_reported': [
                {'rule': k[0], 'site': k[1]} for k, e, v in known],
            'analysis_errors': self.errors,
            'exhaustive': True,
        }
        cov.update(self.extra_cov)
        ev = {
            'property_id': self.pid,
            'tier': self.tier,
            'seed': self.seed,
            'level': self.level,
            'coverage': cov,
            'assumptions': self.assumptions,
            'wall_s': round(time.time() - self.t0, 3),
            'violations': nviol,
        }
        path = os.path.join(EVIDENCE_DIR, self.pid + '.json')
        tmp = path + '.tmp%d' % os.getpid()
        with open(tmp, 'w') as f:
            json.dump(ev, f, indent=1, sort_keys=True, default=str)
        os.replace(tmp, path)
