"""E7a -- finite container-shape domain and an abstract interpreter for the
repository's type-directed recursive converters (convert_input_data /
convert_output_data).

The converters are *interpreted from their AST* on abstract shapes; the only
facts taken from the platform (view V3) are the ABC memberships of builtin
container types (issubclass on stdlib classes) -- no repository code runs.
"""
import ast
import collections.abc
import datetime
import importlib
import itertools
import re
import types

from sa import model
from sa.model import AnalysisError

UT = 'yaql.language.utils'

PYTYPES = {
    'int': int, 'str': str, 'NoneType': type(None), 'float': float,
    'bool': bool, 'datetime': datetime.datetime,
    'tuple': tuple, 'list': list, 'set': set, 'frozenset': frozenset,
    'dict': dict, 'dict_keys': type({}.keys()),
    'dict_values': type({}.values()), 'dict_items': type({}.items()),
    'generator': types.GeneratorType, 'map': map, 'filter': filter,
    'islice': itertools.islice, 'chain': itertools.chain, 'zip': zip,
    'reversed': reversed, 'count': itertools.count,
    'deque': collections.deque, 'range': range,
    'list_iterator': type(iter([])),
    'namedtuple': collections.namedtuple('_NT', 'a b'),
}
REPO_KINDS = {
    'FrozenDict': 'yaql.language.utils:FrozenDict',
    'OrderingIterable': 'yaql.standard_library.queries:OrderingIterable',
}
LEAVES = ('int', 'str', 'NoneType', 'datetime')
ITERATOR_KINDS = ('generator', 'map', 'islice', 'OrderingIterable')


_UNROLLED = {}
_UNROLLED_KEEP = []     # keeps the loop nodes (and so their ids) alive


class Shape:
    __slots__ = ('kind', 'kids', 'origin')

    def __init__(self, kind, kids=()):
        self.kind = kind
        self.kids = tuple(kids)
        self.origin = None

    def __repr__(self):
        if not self.kids:
            return self.kind
        return '%s<%s>' % (self.kind, ', '.join(map(repr, self.kids)))

    def key(self):
        return repr(self)


class Error(Exception):
    def __init__(self, role, inner, outer, detail):
        self.role = role      # set-element | dict-key
        self.inner = inner    # input shape of the offending element
        self.outer = outer    # kind it was converted to
        self.detail = detail


class Facts:
    """ABC / hashability facts about kinds."""

    def __init__(self, repo):
        self.repo = repo
        self._real = {}

    def real_class(self, dotted):
        if dotted in self._real:
            return self._real[dotted]
        cls = None
        if dotted and dotted.startswith('builtins.'):
            import builtins
            cls = getattr(builtins, dotted[9:], None)
        elif dotted:
            mod, _, name = dotted.rpartition('.')
            if mod.split('.')[0] in ('collections', 'datetime', 'itertools',
                                     'types', 'typing', 're', 'numbers',
                                     'decimal', 'abc'):
                try:
                    cls = getattr(importlib.import_module(mod), name, None)
                except Exception:
                    cls = None
        self._real[dotted] = cls
        return cls

    def isinstance_(self, kind, dotted):
        """Would an object of `kind` be an instance of the class named
        `dotted`?"""
        target = self.real_class(dotted)
        if kind in PYTYPES:
            if target is not None:
                return issubclass(PYTYPES[kind], target)
            return False
        if kind in REPO_KINDS:
            ci = self.repo.cls(REPO_KINDS[kind])
            for anc in self.repo.mro(ci):
                if isinstance(anc, model.ClassInfo):
                    if anc.dotted == dotted:
                        return True
                else:
                    if anc == dotted:
                        return True
                    real = self.real_class(anc)
                    if real is not None and target is not None and \
                            issubclass(real, target):
                        return True
            return False
        raise AnalysisError('unknown kind %r' % kind)

    def hashable_out(self, shape):
        """Hashability of a *converted* value."""
        if shape.kind in ('list', 'dict', 'set', 'deque'):
            return False
        if shape.kind == 'tuple':
            return all(self.hashable_out(k) for k in shape.kids)
        if shape.kind == 'FrozenDict':
            return all(self.hashable_out(k) for k in shape.kids)
        return True

    def is_mapping(self, kind):
        return self.isinstance_(kind, 'collections.abc.Mapping')

    def is_setlike(self, kind):
        return self.isinstance_(kind, 'collections.abc.Set')


class Interp:
    """Interprets one converter function on shapes."""

    def __init__(self, repo, fi, facts, options=None):
        self.repo = repo
        self.fi = fi
        self.mod = fi.module
        self.facts = facts
        self.opts = options or {}
        ps = fi.params()
        self.obj = ps[0]
        self.rec_names = {fi.name}
        self.limit = None
        self.engine = None
        for p in ps[1:]:
            if p == 'rec':
                self.rec_names.add(p)
            elif 'limit' in p:
                self.limit = p
            elif p == 'engine':
                self.engine = p
        self.option_funcs = {}
        self.passthrough = []   # kinds returned as the identical object
        self.outer = None       # the interpreter of the converter proper,
        #                         when this one reads a helper of it

    # -- options ------------------------------------------------------------
    def option_of(self, call):
        """convert_sets_to_lists(engine) -> (option name, default)"""
        d = self.repo.resolve(self.mod, call.func,
                              model.scope_locals(self.fi))
        tgt = self.repo.lookup(d) if d else None
        if not isinstance(tgt, model.FuncInfo):
            return self._option_by_evaluation(call, d)
        if tgt.key in self.option_funcs:
            return self.option_funcs[tgt.key]
        for r in model.walk_shallow(tgt.node):
            if isinstance(r, ast.Return) and isinstance(r.value, ast.Call) \
                    and isinstance(r.value.func, ast.Attribute) and \
                    r.value.func.attr == 'get' and len(r.value.args) == 2 \
                    and isinstance(r.value.args[0], ast.Constant) and \
                    isinstance(r.value.args[1], ast.Constant) and \
                    'options' in model.norm(r.value.func.value):
                self.option_funcs[tgt.key] = (r.value.args[0].value,
                                              r.value.args[1].value)
                return self.option_funcs[tgt.key]
        return None

    def _option_by_evaluation(self, call, key):
        """An option reader that is not a plain def (built by a factory,
        a functools.partial ...): apply it abstractly to an engine whose
        options are opaque and read off the one options.get(name, default)
        it performs."""
        if len(call.args) != 1 or call.keywords:
            return None
        if key in self.option_funcs:
            return self.option_funcs[key]
        from sa import absint
        seen = []

        def oracle(callee, args, kwargs):
            if callee == '.get' and args and isinstance(
                    args[0], absint.Sym) and args[0].name == 'options' \
                    and len(args) == 3:
                seen.append((args[1], args[2]))
                return (args[2],)
            return None
        it = absint.Interp(self.repo, self.mod, oracle)
        try:
            f = it.ev(call.func, {})
            it.invoke(f, [absint.Obj('engine', options=absint.Sym(
                'options'))], {})
        except (absint.Unsupported, absint._Raise):
            return None
        if len(seen) == 1 and isinstance(seen[0][0], str):
            self.option_funcs[key] = seen[0]
            return seen[0]
        return None

    # -- predicates ---------------------------------------------------------
    def truth(self, test, shape, env):
        if isinstance(test, ast.BoolOp):
            vals = [self.truth(v, shape, env) for v in test.values]
            return all(vals) if isinstance(test.op, ast.And) else any(vals)
        if isinstance(test, ast.UnaryOp) and isinstance(test.op, ast.Not):
            return not self.truth(test.operand, shape, env)
        if isinstance(test, ast.Constant):
            return bool(test.value)
        if isinstance(test, ast.Compare) and len(test.ops) == 1 and \
                isinstance(test.ops[0], (ast.Is, ast.IsNot)) and \
                isinstance(test.comparators[0], ast.Constant) and \
                test.comparators[0].value is None:
            v = env.get(model.norm(test.left), 'unknown')
            isnone = v is None
            return isnone if isinstance(test.ops[0], ast.Is) else not isnone
        if isinstance(test, ast.Compare) and len(test.ops) == 1 and \
                isinstance(test.ops[0], (ast.Is, ast.IsNot, ast.Eq,
                                         ast.NotEq)):
            a = self.value(test.left, shape, env)
            b = self.value(test.comparators[0], shape, env)
            if isinstance(a, tuple) and isinstance(b, tuple) and \
                    a[0] == b[0] == 'ctor':
                same = a[1] == b[1]
                return same if isinstance(test.ops[0], (ast.Is, ast.Eq)) \
                    else not same
        if isinstance(test, ast.Call) and isinstance(
                test.func, ast.Name) and test.func.id in ('any', 'all') \
                and len(test.args) == 1 and isinstance(
                    test.args[0], (ast.GeneratorExp, ast.ListComp)) and \
                len(test.args[0].generators) == 1 and \
                not test.args[0].generators[0].ifs:
            ge = test.args[0]
            g = ge.generators[0]
            src = self.value(g.iter, shape, env)
            vals = []
            for item in self.iterate(src):
                env2 = dict(env)
                self.bind(g.target, item, env2)
                sub = env2.get(g.target.id) if isinstance(
                    g.target, ast.Name) else shape
                vals.append(self.truth(ge.elt, sub if isinstance(
                    sub, Shape) else shape, env2))
            return any(vals) if test.func.id == 'any' else all(vals)
        if isinstance(test, ast.Call):
            d = self.repo.resolve(self.mod, test.func,
                                  model.scope_locals(self.fi))
            if d == 'builtins.isinstance' and len(test.args) == 2:
                subj = self.value(test.args[0], shape, env)
                if not isinstance(subj, Shape):
                    raise AnalysisError('isinstance on a non-shape in %s' %
                                        self.fi.key)
                return any(self.facts.isinstance_(subj.kind, t)
                           for t in self.type_names(test.args[1]))
            opt = self.option_of(test)
            if opt is not None:
                return bool(self.opts.get(opt[0], opt[1]))
            tgt = self.repo.lookup(d) if d else None
            if isinstance(tgt, model.FuncInfo) and len(test.args) == 1:
                # a repo predicate: inline its single return expression
                rets = [r for r in model.walk_shallow(tgt.node)
                        if isinstance(r, ast.Return)]
                if len(rets) == 1 and rets[0].value is not None:
                    sub = Interp(self.repo, tgt, self.facts, self.opts)
                    subj = self.value(test.args[0], shape, env)
                    return sub.truth(rets[0].value, subj,
                                     {sub.obj: subj})
        raise AnalysisError('unrecognised test %s in %s' % (
            model.norm(test), self.fi.key))

    def type_names(self, node):
        if isinstance(node, ast.Tuple):
            out = []
            for e in node.elts:
                out.extend(self.type_names(e))
            return out
        d = self.repo.resolve(self.mod, node, model.scope_locals(self.fi))
        if d is None:
            raise AnalysisError('unresolvable type %s' % model.norm(node))
        tgt = self.repo.lookup(d)
        if isinstance(tgt, tuple) and tgt[0] == 'const':
            sub = Interp(self.repo, self.fi, self.facts)
            sub.mod = tgt[1]
            return sub.type_names(tgt[2])
        return [d]

    # -- values ---------------------------------------------------------------
    def value(self, e, shape, env):
        """-> Shape | ('ctor', kind) | ('stream', [Shape...]) |
        ('pairs', [(k, v)]) | ('pair', k, v) | None"""
        if isinstance(e, ast.Name):
            if e.id in env:
                return env[e.id]
            if e.id == self.obj:
                return shape
            d = self.repo.resolve(self.mod, e, model.scope_locals(self.fi))
            return self.ctor(d, e)
        if isinstance(e, ast.Attribute):
            d = self.repo.resolve(self.mod, e, model.scope_locals(self.fi))
            if d:
                return self.ctor(d, e)
        if isinstance(e, ast.Constant):
            return Shape('NoneType') if e.value is None else Shape(
                type(e.value).__name__)
        if isinstance(e, ast.Dict) and not e.keys:
            return ('dictbuild', [])
        if isinstance(e, ast.IfExp):
            return self.value(e.body if self.truth(e.test, shape, env)
                              else e.orelse, shape, env)
        if isinstance(e, ast.Tuple):
            vals = [self.value(x, shape, env) for x in e.elts]
            if len(vals) == 2:
                return ('pair', vals[0], vals[1])
            return Shape('tuple', [v for v in vals if isinstance(v, Shape)])
        if isinstance(e, (ast.GeneratorExp, ast.ListComp)):
            if len(e.generators) != 1 or e.generators[0].ifs:
                raise AnalysisError('unsupported comprehension in %s' %
                                    self.fi.key)
            g = e.generators[0]
            src = self.value(g.iter, shape, env)
            out = []
            for item in self.iterate(src):
                env2 = dict(env)
                self.bind(g.target, item, env2)
                out.append(self.value(e.elt, shape, env2))
            if isinstance(e, ast.ListComp):
                return self.build('list', out)
            return ('stream', out)
        if isinstance(e, ast.Lambda):
            return ('lambda', e)
        if isinstance(e, ast.Call):
            return self.call(e, shape, env)
        raise AnalysisError('unrecognised expression %s in %s' % (
            model.norm(e), self.fi.key))

    def ctor(self, d, node):
        m = {'builtins.list': 'list', 'builtins.set': 'set',
             'builtins.tuple': 'tuple', 'builtins.frozenset': 'frozenset',
             'builtins.dict': 'dict', 'builtins.map': 'map',
             UT + '.FrozenDict': 'FrozenDict', 'builtins.str': 'str',
             'builtins.iter': 'list_iterator', 'builtins.sorted': 'list',
             'collections.deque': 'deque'}
        if d in m:
            return ('ctor', m[d])
        raise AnalysisError('unrecognised name %s in %s' % (
            model.norm(node), self.fi.key))

    def iterate(self, src):
        if isinstance(src, Shape):
            if self.facts.is_mapping(src.kind):
                return [src.kids[0]] if src.kids else []   # keys
            if src.kind == 'dict_items':
                return [('pair', src.kids[0].kids[0], src.kids[0].kids[1])
                        ] if src.kids else []
            return list(src.kids)
        if isinstance(src, tuple) and src[0] == 'pairs':
            return [('pair', k, v) for k, v in src[1]]
        if isinstance(src, tuple) and src[0] == 'stream':
            return src[1]
        raise AnalysisError('cannot iterate %r' % (src,))

    def bind(self, target, item, env):
        if isinstance(target, ast.Name):
            if isinstance(item, tuple) and item[0] == 'pair':
                env[target.id] = Shape('tuple', [item[1], item[2]])
            else:
                env[target.id] = item
        elif isinstance(target, ast.Tuple) and len(target.elts) == 2:
            if isinstance(item, tuple) and item[0] == 'pair':
                self.bind(target.elts[0], item[1], env)
                self.bind(target.elts[1], item[2], env)
            elif isinstance(item, Shape) and len(item.kids) == 2:
                self.bind(target.elts[0], item.kids[0], env)
                self.bind(target.elts[1], item.kids[1], env)
            else:
                raise AnalysisError('cannot unpack %r' % (item,))
        else:
            raise AnalysisError('unsupported target in %s' % self.fi.key)

    def call(self, e, shape, env):
        f = e.func
        if isinstance(f, ast.Name) and f.id in self.rec_names:
            arg = self.value(e.args[0], shape, env)
            if isinstance(arg, tuple) and arg[0] == 'pair':
                arg = Shape('tuple', [arg[1], arg[2]])
            return (self.outer or self).convert(arg)
        # a module-level helper of the converter that is handed the object
        # (and the recursion): its body is read like a branch of the
        # converter
        if isinstance(f, ast.Name) and e.args and not e.keywords and \
                isinstance(e.args[0], ast.Name) and \
                e.args[0].id == self.obj and f.id not in env:
            h = self.mod.functions.get(f.id)
            if h is not None and h.parent_func is None and \
                    h.cls is None and len(h.params()) == len(e.args):
                sub = Interp(self.repo, h, self.facts, self.opts)
                sub.outer = self.outer or self
                for p, a in list(zip(h.params(), e.args))[1:]:
                    if isinstance(a, ast.Name) and a.id in self.rec_names:
                        sub.rec_names.add(p)
                    elif isinstance(a, ast.Name) and a.id == self.limit:
                        sub.limit = p
                    elif isinstance(a, ast.Name) and a.id == self.engine:
                        sub.engine = p
                    else:
                        raise AnalysisError(
                            'helper %s of the converter is handed %s' % (
                                f.id, model.norm(a)))
                sub.rec_names.discard(h.name)
                out = sub.block(model.strip_docstring(h.node.body), shape,
                                {})
                if out is None:
                    raise AnalysisError('helper %s returns nothing' % f.id)
                (self.outer or self).passthrough.extend(sub.passthrough)
                return out
        if isinstance(f, ast.Name) and f.id == self.limit:
            return self.value(e.args[0], shape, env)
        if isinstance(f, ast.Name) and isinstance(env.get(f.id), tuple) \
                and env[f.id][0] == 'lambda' and not e.keywords:
            lam = env[f.id][1]
            names = [a.arg for a in lam.args.args]
            if len(names) == len(e.args):
                env2 = dict(env)
                for nm, a in zip(names, e.args):
                    v = self.value(a, shape, env)
                    if isinstance(v, tuple) and v[0] == 'pair':
                        v = Shape('tuple', [v[1], v[2]])
                    env2[nm] = v
                return self.value(lam.body, shape, env2)
        if isinstance(f, ast.Attribute) and f.attr == 'items' and \
                not e.args:
            base = self.value(f.value, shape, env)
            if isinstance(base, Shape) and self.facts.is_mapping(base.kind):
                return ('pairs', [(base.kids[0], base.kids[1])]
                        if base.kids else [])
        if isinstance(f, ast.Name) and f.id == 'type' and len(e.args) == 1:
            v = self.value(e.args[0], shape, env)
            if isinstance(v, Shape):
                return ('ctor', v.kind)
        fv = self.value(f, shape, env)
        if isinstance(fv, tuple) and fv[0] == 'ctor':
            kind = fv[1]
            if kind == 'str':
                return Shape('str')
            if kind == 'map' and len(e.args) == 2:
                lam = self.value(e.args[0], shape, env)
                src = self.value(e.args[1], shape, env)
                out = []
                for item in self.iterate(src):
                    if isinstance(lam, tuple) and lam[0] == 'lambda':
                        env2 = dict(env)
                        env2[lam[1].args.args[0].arg] = item
                        out.append(self.value(lam[1].body, shape, env2))
                    else:
                        raise AnalysisError('map with a non-lambda')
                return Shape('map', [o for o in out if isinstance(o, Shape)])
            if not e.args:
                return Shape(kind)
            src = self.value(e.args[0], shape, env)
            items = self.iterate(src)
            return self.build(kind, items)
        raise AnalysisError('unrecognised call %s in %s' % (
            model.norm(e), self.fi.key))

    def build(self, kind, items):
        if kind in ('dict', 'FrozenDict'):
            ks, vs = [], []
            for it in items:
                if isinstance(it, tuple) and it[0] == 'pair':
                    k, v = it[1], it[2]
                elif isinstance(it, Shape) and len(it.kids) == 2:
                    k, v = it.kids
                else:
                    raise AnalysisError('dict from non-pairs')
                if not self.facts.hashable_out(k):
                    raise Error('dict-key', self.culprit(k), k.kind,
                                'key converted to %s' % k.kind)
                ks.append(k)
                vs.append(v)
            return Shape(kind, [ks[0], vs[0]] if ks else [])
        if kind == 'namedtuple':
            raise Error('constructor', None, 'namedtuple',
                        'type(obj)(<iterable>) does not construct a '
                        'namedtuple (it wants one argument per field)')
        kids = []
        for it in items:
            if isinstance(it, tuple) and it[0] == 'pair':
                it = Shape('tuple', [it[1], it[2]])
            kids.append(it)
        if kind in ('set', 'frozenset'):
            for k in kids:
                if not self.facts.hashable_out(k):
                    raise Error('set-element', self.culprit(k), k.kind,
                                'element converted to %s' % k.kind)
        return Shape(kind, kids)

    # -- the converter ----------------------------------------------------------
    def convert(self, shape):
        if not isinstance(shape, Shape):
            raise AnalysisError('convert on %r' % (shape,))
        env = {}
        body = model.strip_docstring(self.fi.node.body)
        out = self.block(body, shape, env)
        if isinstance(out, Shape) and out is not shape:
            out.origin = shape
        elif isinstance(out, Shape):
            # the converter handed back the very object it was given
            self.passthrough.append(shape.kind)
            out = Shape(out.kind, out.kids)
            out.origin = shape
        return out

    _cur_in_key = None

    def block(self, stmts, shape, env):
        for st in stmts:
            if isinstance(st, ast.If):
                # prelude `if rec is None: rec = <self>`
                if isinstance(st.test, ast.Compare) and isinstance(
                        st.test.left, ast.Name) and \
                        st.test.left.id in self.rec_names | {'rec'}:
                    continue
                if self.truth(st.test, shape, env):
                    r = self.block(st.body, shape, env)
                else:
                    r = self.block(st.orelse, shape, env)
                if r is not None:
                    return r
                continue
            if isinstance(st, ast.Assign) and len(st.targets) == 1 and \
                    isinstance(st.targets[0], ast.Name):
                env[st.targets[0].id] = self.value(st.value, shape, env)
                continue
            if isinstance(st, ast.For) and (
                    id(st) in _UNROLLED or self._table_rows(st) is not None):
                # for kind, convert in TABLE: ... -- one copy of the body
                # per row of the constant table
                import copy
                cache = _UNROLLED.get(id(st))
                if cache is None:
                    names, rows = self._table_rows(st)
                    cache = []
                    for row in rows:
                        sub_env = dict(zip(names, row))

                        class S(ast.NodeTransformer):
                            def visit_Name(self, n):
                                if n.id in sub_env and isinstance(
                                        n.ctx, ast.Load):
                                    return ast.copy_location(
                                        copy.deepcopy(sub_env[n.id]), n)
                                return n
                        cache.append([ast.fix_missing_locations(S().visit(
                            copy.deepcopy(b))) for b in st.body])
                    _UNROLLED[id(st)] = cache
                    _UNROLLED_KEEP.append(st)
                r = None
                for body in cache:
                    r = self.block(body, shape, env)
                    if r is not None:
                        return r
                continue
            if isinstance(st, ast.For):
                src = self.value(st.iter, shape, env)
                for item in self.iterate(src):
                    env2 = env
                    self.bind(st.target, item, env2)
                    for s2 in st.body:
                        if isinstance(s2, ast.Assign) and isinstance(
                                s2.targets[0], ast.Subscript) and isinstance(
                                s2.targets[0].value, ast.Name):
                            dname = s2.targets[0].value.id
                            k_in = self._raw_arg(s2.targets[0].slice, env2)
                            k = self.value(s2.targets[0].slice, shape, env2)
                            v = self.value(s2.value, shape, env2)
                            if not self.facts.hashable_out(k):
                                raise Error('dict-key', self.culprit(k),
                                            k.kind,
                                            'key converted to %s' % k.kind)
                            env[dname] = ('dictbuild',
                                          env[dname][1] + [(k, v)])
                        else:
                            raise AnalysisError(
                                'unsupported loop body in %s' % self.fi.key)
                continue
            if isinstance(st, ast.Return):
                v = self.value(st.value, shape, env)
                if isinstance(v, tuple) and v[0] == 'dictbuild':
                    pairs = v[1]
                    return Shape('dict', list(pairs[0]) if pairs else [])
                if isinstance(v, tuple) and v[0] == 'stream':
                    raise AnalysisError('returns a bare stream')
                if isinstance(v, Shape):
                    return v
                raise AnalysisError('unsupported return %r in %s' % (
                    v, self.fi.key))
            if isinstance(st, ast.Expr) and isinstance(
                    st.value, ast.Constant):
                continue
            if isinstance(st, ast.FunctionDef):
                # a local one-expression helper: same as a lambda
                fb = model.strip_docstring(st.body)
                if len(fb) == 1 and isinstance(fb[0], ast.Return) and \
                        fb[0].value is not None and not st.decorator_list:
                    lam = ast.Lambda(args=st.args, body=fb[0].value)
                    env[st.name] = ('lambda', lam)
                    continue
            raise AnalysisError('unsupported statement %s in %s' % (
                model.norm(st)[:60], self.fi.key))
        return None

    def _table_rows(self, st):
        """(target names, rows of expressions) when the loop ranges over a
        module-level constant tuple of same-length tuples of names."""
        it = st.iter
        if not isinstance(it, ast.Name) or it.id == self.obj:
            return None
        node = self.mod.constants.get(it.id)
        if not isinstance(node, (ast.Tuple, ast.List)) or not node.elts:
            return None
        names = [st.target.id] if isinstance(st.target, ast.Name) else (
            [t.id for t in st.target.elts] if isinstance(
                st.target, ast.Tuple) and all(
                isinstance(t, ast.Name) for t in st.target.elts) else None)
        if names is None:
            return None
        rows = []
        for r in node.elts:
            vals = [r] if len(names) == 1 else (
                list(r.elts) if isinstance(r, (ast.Tuple, ast.List)) and
                len(r.elts) == len(names) else None)
            if vals is None or not all(isinstance(
                    v, (ast.Name, ast.Attribute, ast.Constant, ast.Tuple))
                    for v in vals):
                return None
            rows.append(vals)
        return names, rows

    def culprit(self, out):
        """The innermost converted value that makes `out` unhashable, as
        (its input shape)."""
        cur = out
        while True:
            nxt = None
            if cur.kind in ('tuple', 'FrozenDict'):
                for k in cur.kids:
                    if not self.facts.hashable_out(k):
                        nxt = k
                        break
            if nxt is None:
                break
            cur = nxt
        return cur.origin if cur.origin is not None else cur

    def _raw_arg(self, e, env):
        """input shape of rec(<x>) arguments (for diagnostics)"""
        if isinstance(e, ast.Call) and e.args and isinstance(
                e.args[0], ast.Name):
            return env.get(e.args[0].id)
        return None


def universe(facts, depth=2, input_side=False, extra_kinds=()):
    """All shapes up to `depth` that can exist at run time."""
    leaves = [Shape(k) for k in LEAVES]
    small_leaves = [Shape('int'), Shape('str')]

    def hashable_in(s):
        if s.kind in ('list', 'dict', 'set', 'dict_keys', 'dict_values',
                      'dict_items', 'generator', 'map', 'islice',
                      'OrderingIterable', 'deque'):
            return s.kind in ()
        if s.kind in ('tuple', 'FrozenDict'):
            return all(hashable_in(k) for k in s.kids)
        return True
    if input_side:
        containers = ['tuple', 'list', 'frozenset', 'set', 'dict',
                      'generator', 'dict_keys', 'dict_values', 'deque']
    else:
        containers = ['tuple', 'list', 'frozenset', 'set', 'dict',
                      'FrozenDict', 'dict_keys', 'dict_values',
                      'dict_items', 'generator', 'map', 'islice',
                      'OrderingIterable']

    def level(children, keys):
        out = []
        for kind in containers:
            if kind in ('dict', 'FrozenDict'):
                for k in keys:
                    for v in children:
                        if kind == 'FrozenDict' and input_side:
                            continue
                        out.append(Shape(kind, [k, v]))
            elif kind == 'dict_items':
                for k in keys:
                    for v in children:
                        out.append(Shape(kind, [Shape('tuple', [k, v])]))
            elif kind == 'dict_keys':
                for k in keys:
                    out.append(Shape(kind, [k]))
            elif kind in ('set', 'frozenset'):
                for c in children:
                    if hashable_in(c):
                        out.append(Shape(kind, [c]))
            else:
                for c in children:
                    out.append(Shape(kind, [c]))
        return out
    l1 = level(leaves, [Shape('str'), Shape('int')])
    shapes = leaves + l1
    if depth >= 2:
        l1s = level(small_leaves, [Shape('str')])
        keys2 = [Shape('str')] + [s for s in l1s if hashable_in(s) and
                                  s.kind in ('tuple', 'frozenset',
                                             'FrozenDict')]
        l2 = level(l1s, keys2)
        shapes += l2
        if depth >= 3:
            keys3 = [Shape('str')]
            l3 = level([s for s in l2 if s.kids and not s.kids[0].kids or
                        True][:60], keys3)
            shapes += l3
    for k in extra_kinds:
        if k == 'namedtuple':
            for a in small_leaves:
                shapes.append(Shape('namedtuple', [a, Shape('int')]))
                shapes.append(Shape('list', [Shape('namedtuple',
                                                   [a, Shape('int')])]))
                shapes.append(Shape('map', [Shape('namedtuple',
                                                  [a, Shape('int')])]))
    # de-duplicate
    seen = {}
    for s in shapes:
        seen.setdefault(s.key(), s)
    return list(seen.values())
