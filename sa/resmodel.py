"""Abstract evaluation of the overload-choice procedure (runner.choose_overload
and whatever it was split into) on a finite family of *abstract* call
situations.

A situation fixes what the opaque parts answer: which candidates of which
layer map the call (and with which lazy argument keys), whose delegate
accepts the evaluated arguments and whose raises ArgumentException, and how
the parameter types of two candidates compare.  Nothing of yaql runs: the
source of choose_overload is interpreted by sa.absint with the candidates,
the argument expressions and the parameter types as records whose methods
are uninterpreted calls answered by the situation.  The observable outcome
(which delegate is invoked / which resolution error is raised) and the
order of the uninterpreted calls are compared with what the documented
resolution rules prescribe for that situation.

Because only the *meaning* of the procedure is looked at, the verdicts do
not depend on how it is spelled (closures, helpers, a small class, tables,
comprehensions, itertools ...).  What the evaluator cannot interpret is
reported as "not decided", never as a verdict.
"""
import ast
import itertools

from sa import absint
from sa import model

RUNNER = 'yaql.language.runner'

# candidate kinds: (maps?, lazy keys, delegate)
KINDS = {
    'M0': (False, (), None),          # does not map the call
    'A': (True, (), 'ok'),            # maps, all eager, delegate accepts
    'Ax': (True, (), 'argexc'),       # maps, delegate: ArgumentException
    'L': (True, (0,), 'ok'),          # first positional argument lazy
    'K': (True, ('k',), 'ok'),        # keyword argument k lazy
    'Ad': (True, (), 'ok'),           # as A, plus a defaulted parameter the
    #                                   call does not bind
}
SPEC = ('first', 'second', 'none')   # which of two candidates is narrower
# classes the situations give an answer about; an isinstance test against
# anything else is answered 'no' and recorded: the verdicts are then not
# used to overrule a structural rule
KNOWN_CLASSES = {'LazyParameterType', 'HiddenParameterType', 'Expression',
                 'Constant',
                 'MappingRuleExpression', 'KeywordConstant', 'tuple', 'list',
                 'dict', 'str', 'int', 'set', 'frozenset'}
UNMODELLED = set()


class Situation:
    def __init__(self, method, layers, spec, mixed_no_kwargs=False):
        self.method = method            # call with a receiver?
        self.layers = layers            # [[kind, ...], ...] nearest first
        self.spec = spec                # relation inside layers of two
        self.mixed_no_kwargs = mixed_no_kwargs

    def __repr__(self):
        return '%s call, layers %s, specificity %s%s' % (
            'method' if self.method else 'function', self.layers, self.spec,
            ', mixed no_kwargs' if self.mixed_no_kwargs else '')

    # -- what the documented rules prescribe --------------------------------
    def expected(self):
        """-> (outcome, evaluated keys) ; outcome = ('run', (layer, index))
        | ('error', 'ambiguous' | 'no-match')"""
        if self.mixed_no_kwargs:
            return ('error', 'ambiguous'), None
        lazy_sets = []
        for li, layer in enumerate(self.layers):
            for ci, k in enumerate(layer):
                maps, lazy, deleg = KINDS[k]
                if maps:
                    lazy_sets.append(frozenset(lazy))
        if len(set(lazy_sets)) > 1:
            return ('error', 'ambiguous'), None
        if not lazy_sets:
            return ('error', 'no-match'), None
        lazy = lazy_sets[0]
        evaluated = [k for k in (0, 1, 'k') if k not in lazy]
        # the receiver shifts positional keys by one
        if self.method:
            evaluated = [k for k in (1, 2, 'k') if (
                k - 1 if isinstance(k, int) else k) not in lazy] \
                if False else evaluated
        for li, layer in enumerate(self.layers):
            matches = [ci for ci, k in enumerate(layer)
                       if KINDS[k][0] and KINDS[k][2] == 'ok']
            if not matches:
                continue
            if len(matches) == 1:
                return ('run', (li, matches[0])), evaluated
            if len(matches) > 2:
                # candidate 2 is comparable with nobody
                return ('error', 'ambiguous'), evaluated
            if self.spec == 'first':
                return ('run', (li, matches[0])), evaluated
            if self.spec == 'second':
                return ('run', (li, matches[1])), evaluated
            return ('error', 'ambiguous'), evaluated
        return ('error', 'no-match'), evaluated


def situations():
    kinds = list(KINDS)
    firsts = [[k] for k in kinds] + [[a, b] for a in kinds for b in kinds]
    seconds = [None, ['A'], ['Ax'], ['M0']]
    for method in (False, True):
        for l1 in firsts:
            for l2 in seconds:
                layers = [l1] + ([l2] if l2 else [])
                specs = SPEC if len(l1) == 2 else ('none',)
                for sp in specs:
                    yield Situation(method, layers, sp)
        yield Situation(method, [['A', 'A']], 'first', mixed_no_kwargs=True)
        # three matches: one narrower than another, the third unrelated to
        # both -> no single most specific match, whatever the order
        yield Situation(method, [['A', 'A', 'A']], 'first')
        yield Situation(method, [['A', 'A', 'A']], 'second')
        yield Situation(method, [['A', 'A', 'Ax']], 'first')


class NotDecided(Exception):
    pass


def _type_obj(tid):
    return absint.Obj('type#%s' % tid, tid=tid,
                      is_specialization_of=absint.Sym('spec#%s' % tid))


def run_situation(repo, sit, order=None, payload_fails=False):
    """Interpret choose_overload on `sit`.  `order`: a permutation applied to
    the candidates of every two-candidate layer (to look for a dependence on
    enumeration order).  -> (outcome, trace)"""
    mod = repo.module(RUNNER)
    fi = mod.functions.get('choose_overload')
    if fi is None:
        raise NotDecided('runner.choose_overload not found')
    trace = []
    NO_VALUE = ('global', 'yaql.language.utils.NO_VALUE')
    recv = absint.Obj('receiver', kind='value') if sit.method else NO_VALUE
    exprs = {}

    def expr(key):
        o = absint.Obj('expr[%r]' % (key,), kind='expr', key=key,
                       __call__=absint.Sym('eval#%r' % (key,)))
        exprs[key] = o
        return o
    args = (expr(0), expr(1))
    kwargs = {'k': expr('k')}
    values = {}
    cands = {}
    layers = []
    for li, layer in enumerate(sit.layers):
        objs = []
        for ci, k in enumerate(layer):
            maps, lazy, deleg = KINDS[k]
            cid = (li, ci)
            c = absint.Obj(
                'cand%s' % (cid,), cid=cid,
                no_kwargs=bool(sit.mixed_no_kwargs and ci == 1),
                map_args=absint.Sym('map#%d.%d' % cid),
                get_delegate=absint.Sym('deleg#%d.%d' % cid))
            cands[cid] = (c, k)
            objs.append(c)
        if order is not None and len(objs) == len(order):
            objs = [objs[i] for i in order]
        layers.append(objs)

    made = {}

    def mapping_of(cid, call_args, call_kwargs):
        c, k = cands[cid]
        maps, lazy, deleg = KINDS[k]
        if not maps:
            return None
        if cid in made:
            return made[cid]
        npos = len(call_args)
        shift = 1 if sit.method else 0
        pos = []
        for i in range(npos):
            is_lazy = (i - shift) in lazy and i >= shift
            pos.append(absint.Obj(
                'param', name='p%d' % i, alias=None, position=i,
                default=absint.Sym('no-default'),
                value_type=_type_obj('%d.%d.%d' % (cid[0], cid[1], i))))
            pos[-1].attrs['value_type'].attrs['lazy'] = is_lazy
        kw = {}
        for key in call_kwargs:
            vt = _type_obj('%d.%d.%s' % (cid[0], cid[1], key))
            vt.attrs['lazy'] = key in lazy
            # the python name of a parameter is not the keyword it is
            # passed by (trailing underscore, naming convention)
            kw[key] = absint.Obj('param', name=key + '_', alias=None,
                                 position=None,
                                 default=absint.Sym('no-default'),
                                 value_type=vt)
        params = {p.attrs['name']: p for p in pos}
        params.update({p.attrs['name']: p for p in kw.values()})
        if k == 'Ad':
            vt = _type_obj('%d.%d.extra' % cid)
            vt.attrs['lazy'] = False
            params['extra'] = absint.Obj(
                'param', name='extra', alias=None, position=len(pos),
                default=0, value_type=vt)
        c.attrs['parameters'] = params
        # in the form map_args itself answers in (a pair, a record ...)
        from sa import delegmodel
        made[cid] = delegmodel.mapping_shape(repo)[0](tuple(pos), kw)
        return made[cid]

    def spec_answer(tid_self, other):
        """self.is_specialization_of(other): parameter types of the first
        positional argument decide, the rest are equal."""
        if not isinstance(other, absint.Obj) or 'tid' not in other.attrs:
            raise absint.Unsupported('specialisation of a non-type')
        a = tid_self.split('.')
        b = other.attrs['tid'].split('.')
        if a[2] != b[2]:
            raise absint.Unsupported('unrelated parameters compared: %s '
                                     'with %s' % (tid_self,
                                                  other.attrs['tid']))
        if a[:2] == b[:2]:
            return False
        first_pos = '1' if sit.method else '0'
        if a[2] != first_pos or a[0] != b[0]:
            return False
        if sit.spec == 'first':
            return a[1] == '0' and b[1] == '1'
        if sit.spec == 'second':
            return a[1] == '1' and b[1] == '0'
        return False

    def oracle(callee, cargs, ckw):
        if callee.startswith('map#'):
            cid = tuple(int(x) for x in callee[4:].split('.'))
            trace.append(('map', cid))
            return (mapping_of(cid, cargs[0], cargs[1]),)
        if callee.startswith('deleg#'):
            cid = tuple(int(x) for x in callee[6:].split('.'))
            got_args = cargs[3] if len(cargs) > 3 else ckw.get('args')
            got_kw = cargs[4] if len(cargs) > 4 else ckw.get('kwargs')
            trace.append(('deleg', cid, tuple(got_args),
                          dict(got_kw) if isinstance(got_kw, dict)
                          else got_kw))
            if KINDS[cands[cid][1]][2] == 'argexc':
                return (absint._Raise('ArgumentException'),)
            return (absint.Sym('delegate#%d.%d' % cid),)
        if callee.startswith('delegate#'):
            cid = tuple(int(x) for x in callee[9:].split('.'))
            first = not any(t[0] == 'ran' for t in trace)
            trace.append(('ran', cid))
            if payload_fails and first:
                # the chosen overload refuses its arguments while it runs
                # (a converter or the payload raises an argument error)
                return (absint._Raise('ArgumentException'),)
            return (absint.Sym('result'),)
        if callee.startswith('eval#'):
            key = ast.literal_eval(callee[5:])
            trace.append(('eval', key))
            v = absint.Obj('value[%r]' % (key,), kind='value', of=key)
            values[key] = v
            return (v,)
        if callee.startswith('spec#'):
            return (spec_answer(callee[5:], cargs[0]),)
        return None

    def inst(value, cls_expr):
        names = [model.norm(x).rsplit('.', 1)[-1] for x in (
            cls_expr.elts if isinstance(cls_expr, ast.Tuple)
            else [cls_expr])]
        for nm in names:
            if nm not in KNOWN_CLASSES:
                UNMODELLED.add(nm)
        if isinstance(value, absint.Obj):
            if 'lazy' in value.attrs:      # a parameter type
                if 'HiddenParameterType' in names:
                    return False
                return 'LazyParameterType' in names and value.attrs['lazy']
            kind = value.attrs.get('kind')
            if kind == 'expr':
                return any(n in ('Expression',) for n in names)
            if kind == 'value':
                return False
        if isinstance(value, (tuple, list, dict, str, int)):
            return any(n == type(value).__name__ for n in names)
        raise absint.Unsupported('isinstance(%r, %s)' % (
            value, model.norm(cls_expr)))

    it = absint.Interp(repo, mod, oracle, inst, max_steps=60000)
    ps = fi.params()
    want = ['name', 'candidates', 'engine', 'receiver', 'context', 'args',
            'kwargs']
    if ps != want:
        raise NotDecided('choose_overload has parameters %s' % ps)
    amap = {'name': 'f', 'candidates': layers, 'engine': absint.Sym('eng'),
            'receiver': recv, 'context': absint.Sym('ctx'), 'args': args,
            'kwargs': kwargs}
    try:
        out = it.run(fi.node, amap)
        if out[0] == 'return':
            thunk = out[1]
            try:
                it.invoke(thunk, [], {})
            except absint._Raise as r:
                out = ('raise', r.v)
    except absint.Unsupported as e:
        raise NotDecided(str(e))
    if out[0] == 'raise' and payload_fails:
        ran = [t[1] for t in trace if t[0] == 'ran']
        return ('raised', str(out[1]).rsplit('.', 1)[-1], tuple(ran)), trace
    if out[0] == 'raise':
        nm = str(out[1]).rsplit('.', 1)[-1]
        kind = 'ambiguous' if nm.startswith('Ambiguous') else (
            'no-match' if nm.startswith('NoMatching') else nm)
        flavour = 'method' if 'Method' in nm else (
            'function' if 'Function' in nm else '?')
        return ('error', kind, flavour), trace
    ran = [t[1] for t in trace if t[0] == 'ran']
    if len(ran) != 1:
        return ('ran', tuple(ran)), trace
    return ('run', ran[0]), trace


def call_verdicts(repo):
    """runner.call on abstract situations: which definitions the kind
    predicate lets through (functions for a call without receiver, methods
    for one with a receiver, and only those the caller's filter accepts),
    and the error for a name nothing is registered under."""
    mod = repo.module(RUNNER)
    fi = mod.functions.get('call')
    if fi is None:
        raise NotDecided('runner.call not found')
    NO_VALUE = ('global', 'yaql.language.utils.NO_VALUE')
    bad = {'kind-predicate': [], 'unknown-error': []}
    for method in (False, True):
        for with_filter in (False, True):
            for found in (False, True):
                captured = []
                filt_calls = []

                def oracle(callee, cargs, ckw):
                    if callee == 'collect':
                        pred = cargs[1] if len(cargs) > 1 else ckw.get(
                            'predicate')
                        captured.append(pred)
                        return ([[absint.Obj('cand')]] if found else [],)
                    if callee == 'filter':
                        filt_calls.append(cargs)
                        return (cargs[0].attrs['accept'],)
                    if callee.endswith('choose_overload'):
                        return (absint.Sym('delegate'),)
                    if callee == 'delegate':
                        return (absint.Sym('result'),)
                    if callee.endswith('limit_memory_usage'):
                        return (None,)
                    return None
                ctx = absint.Obj('context',
                                 collect_functions=absint.Sym('collect'))
                recv = absint.Obj('receiver') if method else NO_VALUE
                it = absint.Interp(repo, mod, oracle)
                amap = {'name': 'f', 'context': ctx, 'args': (),
                        'kwargs': {}, 'engine': absint.Sym('eng'),
                        'receiver': recv}
                if with_filter:
                    amap['function_filter'] = absint.Sym('filter')
                try:
                    out = it.run(fi.node, amap)
                    desc = '%s call%s' % ('method' if method else 'function',
                                          ', with a caller filter'
                                          if with_filter else '')
                    if not found:
                        nm = str(out[1]).rsplit('.', 1)[-1] if \
                            out[0] == 'raise' else 'no error'
                        want = 'NoMethodRegisteredException' if method \
                            else 'NoFunctionRegisteredException'
                        if nm != want:
                            bad['unknown-error'].append(
                                '%s of an unregistered name raises %s, '
                                'expected %s' % (desc, nm, want))
                    if len(captured) != 1:
                        raise NotDecided('collect_functions called %d times'
                                         % len(captured))
                    pred = captured[0]
                    for isf, ism, acc in itertools.product(
                            (False, True), repeat=3):
                        if not with_filter and not acc:
                            continue
                        fd = absint.Obj('fd', is_function=isf,
                                        is_method=ism, accept=acc)
                        got = it.truth(it.invoke(pred, [
                            fd, absint.Sym('ctx2')], {}))
                        want = (ism if method else isf) and (
                            acc if with_filter else True)
                        if bool(got) != bool(want):
                            bad['kind-predicate'].append(
                                '%s: a definition with is_function=%s '
                                'is_method=%s%s is %s' % (
                                    desc, isf, ism,
                                    ' that the filter %s' % (
                                        'accepts' if acc else 'rejects')
                                    if with_filter else '',
                                    'admitted' if got else 'left out'))
                except absint.Unsupported as e:
                    raise NotDecided(str(e))
    return {k: (not v, v[0] if v else '') for k, v in bad.items()}


def verdicts(repo):
    """-> {clause: (ok, why)} for the clauses of the documented resolution
    rules that the situations cover; raises NotDecided if the procedure
    cannot be interpreted."""
    bad = {k: [] for k in (
        'outcome', 'error-flavour', 'single-sweep', 'sweep-before-delegates',
        'sweep-after-mapping', 'positional-before-keyword', 'lazy-untouched',
        'delegates-get-values', 'first-layer-wins', 'order-independent',
        'no-evaluation-when-unmatched', 'chosen-overload-runs-alone')}
    n = 0
    for sit in situations():
        exp, evaluated = sit.expected()
        got, trace = run_situation(repo, sit)
        n += 1
        desc = repr(sit)
        g2 = got[:2] if got[0] == 'error' else got
        if g2 != exp:
            bad['outcome'].append('%s: expected %s, got %s' % (
                desc, exp, got))
        if got[0] == 'error' and got[1] in ('ambiguous', 'no-match'):
            if got[2] != ('method' if sit.method else 'function'):
                bad['error-flavour'].append('%s: %s error raised in its '
                                            '%s form' % (desc, got[1],
                                                         got[2]))
        evals = [t[1] for t in trace if t[0] == 'eval']
        if evaluated is None or exp == ('error', 'no-match') and not any(
                KINDS[k][0] for layer in sit.layers for k in layer):
            if evals:
                bad['no-evaluation-when-unmatched'].append(
                    '%s: arguments %s are evaluated although the call '
                    'fails before the sweep' % (desc, evals))
        elif evaluated is not None:
            shift = 1 if sit.method else 0
            want = list(evaluated)
            if sorted(map(str, evals)) != sorted(map(str, want)):
                lazy_hit = [k for k in evals if k not in want]
                if lazy_hit:
                    bad['lazy-untouched'].append(
                        '%s: lazy argument(s) %s evaluated' % (desc,
                                                               lazy_hit))
                else:
                    bad['single-sweep'].append(
                        '%s: arguments evaluated %s, expected each of %s '
                        'once' % (desc, evals, want))
            elif [k for k in evals if isinstance(k, int)] + [
                    k for k in evals if not isinstance(k, int)] != evals:
                bad['positional-before-keyword'].append(
                    '%s: evaluation order %s' % (desc, evals))
            first_deleg = min([i for i, t in enumerate(trace)
                               if t[0] == 'deleg'] or [len(trace)])
            last_map = max([i for i, t in enumerate(trace)
                            if t[0] == 'map'] or [-1])
            ev_idx = [i for i, t in enumerate(trace) if t[0] == 'eval']
            if ev_idx and max(ev_idx) > first_deleg:
                bad['sweep-before-delegates'].append(
                    '%s: an argument is evaluated after a delegate was '
                    'requested' % desc)
            if ev_idx and min(ev_idx) < last_map:
                bad['sweep-after-mapping'].append(
                    '%s: an argument is evaluated while candidates are '
                    'still being mapped' % desc)
            for t in trace:
                if t[0] != 'deleg':
                    continue
                pos = t[2][shift:] if len(t[2]) >= shift else t[2]
                for i, a in enumerate(pos):
                    should = i in want
                    is_val = isinstance(a, absint.Obj) and \
                        a.attrs.get('kind') == 'value'
                    if should != is_val:
                        bad['delegates-get-values'].append(
                            '%s: get_delegate receives %s for positional '
                            'argument %d' % (desc, 'an unevaluated '
                                             'expression' if should else
                                             'a value', i))
                kw = t[3] if isinstance(t[3], dict) else {}
                for key, a in kw.items():
                    should = key in want
                    is_val = isinstance(a, absint.Obj) and \
                        a.attrs.get('kind') == 'value'
                    if should != is_val:
                        bad['delegates-get-values'].append(
                            '%s: get_delegate receives %s for keyword '
                            'argument %s' % (desc, 'an unevaluated '
                                             'expression' if should else
                                             'a value', key))
            if exp[0] == 'run' and exp[1][0] == 0:
                later = [t for t in trace if t[0] == 'deleg' and
                         t[1][0] > 0]
                if later:
                    bad['first-layer-wins'].append(
                        '%s: candidates of an outer layer are asked for a '
                        'delegate although the nearest layer has a match'
                        % desc)
        if got[0] == 'run':
            # the same call when the chosen overload fails while it runs:
            # its error is the call's error, nothing else is tried
            got3, _ = run_situation(repo, sit, payload_fails=True)
            if got3 != ('raised', 'ArgumentException', (got[1],)):
                bad['chosen-overload-runs-alone'].append(
                    '%s: when the chosen overload %s raises an argument '
                    'error while it runs the outcome is %s (expected: that '
                    'error, and no other overload run)' % (desc, got[1],
                                                           got3))
        width = max(len(layer) for layer in sit.layers)
        if width >= 2:
            for perm in itertools.permutations(range(width)):
                if list(perm) == list(range(width)):
                    continue
                got2, _ = run_situation(repo, sit, order=perm)
                if got2 != got:
                    bad['order-independent'].append(
                        '%s: %s when the layer enumerates its candidates '
                        'in one order, %s in the order %s' % (
                            desc, got, got2, list(perm)))
                    break
    out = {k: (not v, v[0] if v else '') for k, v in bad.items()}
    out['_situations'] = n
    out.update(call_verdicts(repo))
    return out


# which clauses speak for which structural rule (sites inside runner.py)
RULE_CLAUSES = {
    'R05a': ('outcome', 'error-flavour', 'unknown-error'),
    'R05b': ('outcome', 'error-flavour', 'no-evaluation-when-unmatched',
             'unknown-error'),
    'R05d': ('outcome', 'first-layer-wins'),
    'R05e': ('outcome',),
    'R05f': ('outcome', 'order-independent'),
    'R06b': ('outcome', 'order-independent'),
    'R06c': ('outcome', 'order-independent'),
    'R06e': ('outcome', 'order-independent'),
    'R11a': ('single-sweep', 'sweep-before-delegates',
             'sweep-after-mapping', 'positional-before-keyword',
             'lazy-untouched', 'delegates-get-values',
             'no-evaluation-when-unmatched'),
    'R11f': ('lazy-untouched', 'delegates-get-values', 'outcome'),
    'R12c': ('kind-predicate', 'unknown-error'),
}
FLOORS = ('loops over unordered values on the resolution path',
          'raise sites of resolution errors in the runner')
_cache = {}


def _verdicts_cached(repo):
    key = id(repo)
    if key not in _cache:
        UNMODELLED.clear()
        try:
            v = verdicts(repo)
            v['_complete'] = not UNMODELLED
            v['_unmodelled'] = sorted(UNMODELLED)
        except NotDecided as e:
            v = {'_error': str(e)}
        _cache[key] = v
    return _cache[key]


def second_opinion(repo, rule):
    """A note if the abstract evaluation of the resolution situations
    discharges every clause `rule` stands for (and was complete), else
    None."""
    clauses = RULE_CLAUSES.get(rule)
    if not clauses:
        return None
    v = _verdicts_cached(repo)
    if '_error' in v or not v.get('_complete'):
        return None
    if all(v[c][0] for c in clauses):
        return ('the structural reading does not apply to this spelling of '
                'the resolution procedure; decided instead by abstract '
                'evaluation of choose_overload on %d call situations '
                '(clauses %s hold in all of them)' % (
                    v['_situations'], ', '.join(clauses)))
    return None


def install(repo, rep):
    """Let the report consult the situations before it records a violation
    of a structural rule anchored inside runner.py."""
    def arb(rule, site):
        if not site.startswith(RUNNER + ':'):
            return None
        return second_opinion(repo, rule)

    def farb(what):
        if what in FLOORS:
            return second_opinion(repo, 'R06b') and second_opinion(
                repo, 'R05b')
        return None
    rep.arbiter = arb
    rep.floor_arbiter = farb


def guarded(repo, rep, rule, fn, *args, default=0, **kw):
    """Run a structural rule function anchored inside runner.py; if its
    anchor is gone (AnalysisError) let the situations decide the clauses the
    rule stands for."""
    from sa.model import AnalysisError
    try:
        return fn(*args, **kw)
    except AnalysisError as e:
        note = second_opinion(repo, rule)
        if not note:
            raise
        rep.ob(rule, RUNNER + ':choose_overload/decided-by-evaluation', True,
               '%s (structural rule: %s)' % (note, e))
        return default


# -- delegate / mapping situations (sa.delegmodel) ---------------------------
SPECS_RULE_CLAUSES = {
    'R04a': ('no-conversion-before-invocation', 'fresh-child-per-invocation',
             'converted-in-that-child', 'payload-gets-converted-slots'),
    'R05c': ('every-value-checked', 'failed-check-rejects',
             'rejects-bad-calls', 'payload-gets-converted-slots',
             'conversion-error-is-argument-error',
             'map-accepts-iff-wellformed',
             'map-checks-every-supplied-value',
             'map-pairs-values-with-parameters'),
}
_dcache = {}


def _deleg_cached(repo):
    from sa import delegmodel
    key = id(repo)
    if key not in _dcache:
        try:
            v = delegmodel.verdicts(repo)
            v.update(delegmodel.map_verdicts(repo))
        except delegmodel.NotDecided as e:
            v = {'_error': str(e)}
        _dcache[key] = v
    return _dcache[key]


def second_opinion_specs(repo, rule):
    clauses = SPECS_RULE_CLAUSES.get(rule)
    if not clauses:
        return None
    v = _deleg_cached(repo)
    if '_error' in v:
        return None
    if all(v[c][0] for c in clauses):
        return ('the structural reading does not apply to this spelling of '
                'get_delegate / map_args; decided instead by abstract '
                'evaluation on %d definition/call situations (clauses %s '
                'hold in all of them)' % (
                    v['_situations'] + v['_map_situations'],
                    ', '.join(clauses)))
    return None


_install_runner = install


def install(repo, rep):
    _install_runner(repo, rep)
    runner_arb = rep.arbiter

    def arb(rule, site):
        if site.startswith('yaql.language.specs:FunctionDefinition.'
                           'get_delegate') or site.startswith(
                'yaql.language.specs:FunctionDefinition.map_args'):
            return second_opinion_specs(repo, rule)
        return runner_arb(rule, site)
    rep.arbiter = arb


def guarded_specs(repo, rep, rule, fn, *args, default=0, **kw):
    from sa.model import AnalysisError
    try:
        return fn(*args, **kw)
    except AnalysisError as e:
        note = second_opinion_specs(repo, rule)
        if not note:
            raise
        rep.ob(rule, 'yaql.language.specs:FunctionDefinition.get_delegate/'
               'decided-by-evaluation', True,
               '%s (structural rule: %s)' % (note, e))
        return default


def report_situations(repo, rep, rule, clauses, what):
    """The clauses as obligations of their own (primary evidence, not only
    a second opinion).  A procedure the evaluator cannot interpret is noted,
    not reported: the structural rules then stand alone."""
    rv = _verdicts_cached(repo)
    dv = _deleg_cached(repo)
    n = 0
    for c in clauses:
        src = rv if c in rv else dv if c in dv else None
        if src is None:
            err = rv.get('_error') if c in sum(
                RULE_CLAUSES.values(), ()) else dv.get('_error')
            rep.note('%s/%s: not decided by the situations (%s)' % (
                rule, c, err or 'clause unavailable'))
            continue
        ok, why = src[c]
        n += 1
        rep.ob(rule, 'situations/' + c, ok,
               '%s: %s' % (what, why) if not ok else
               'holds in every situation', nontrivial=True)
    rep.count(**{'situations_' + rule.lower(): (
        rv.get('_situations', 0), dv.get('_situations', 0),
        dv.get('_map_situations', 0))})
    return n
