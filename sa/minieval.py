"""Abstract evaluation of tiny pure expressions taken from the AST (string
methods, slicing, comparisons, boolean operators, conditional expressions)
on literal sample values.  Used to decide what a one-line predicate or
normaliser in the repository does on a handful of fixed literals without
importing or calling the repository's code."""
import ast


class Unsupported(Exception):
    pass


SAFE_STR_METHODS = {'startswith', 'endswith', 'strip', 'lstrip', 'rstrip',
                    'lower', 'upper', 'isalpha', 'isdigit', 'find',
                    'replace', 'split', 'join', 'format', 'isidentifier'}


def ev(node, env):
    if isinstance(node, ast.Constant):
        return node.value
    if isinstance(node, ast.Name):
        if node.id in env:
            return env[node.id]
        if node.id in ('True', 'False', 'None'):
            return {'True': True, 'False': False, 'None': None}[node.id]
        if node.id == 'len':
            return len
        if node.id == 'str':
            return str
        raise Unsupported('name ' + node.id)
    if isinstance(node, ast.Tuple):
        return tuple(ev(e, env) for e in node.elts)
    if isinstance(node, ast.UnaryOp):
        v = ev(node.operand, env)
        if isinstance(node.op, ast.Not):
            return not v
        if isinstance(node.op, ast.USub):
            return -v
        raise Unsupported('unary')
    if isinstance(node, ast.BoolOp):
        if isinstance(node.op, ast.And):
            v = True
            for x in node.values:
                v = ev(x, env)
                if not v:
                    return v
            return v
        v = False
        for x in node.values:
            v = ev(x, env)
            if v:
                return v
        return v
    if isinstance(node, ast.IfExp):
        return ev(node.body, env) if ev(node.test, env) else ev(
            node.orelse, env)
    if isinstance(node, ast.Compare):
        left = ev(node.left, env)
        for op, c in zip(node.ops, node.comparators):
            right = ev(c, env)
            if isinstance(op, ast.Eq):
                ok = left == right
            elif isinstance(op, ast.NotEq):
                ok = left != right
            elif isinstance(op, ast.In):
                ok = left in right
            elif isinstance(op, ast.NotIn):
                ok = left not in right
            elif isinstance(op, ast.Is):
                ok = left is right
            elif isinstance(op, ast.IsNot):
                ok = left is not right
            elif isinstance(op, ast.Lt):
                ok = left < right
            elif isinstance(op, ast.LtE):
                ok = left <= right
            elif isinstance(op, ast.Gt):
                ok = left > right
            elif isinstance(op, ast.GtE):
                ok = left >= right
            else:
                raise Unsupported('compare')
            if not ok:
                return False
            left = right
        return True
    if isinstance(node, ast.BinOp):
        a, b = ev(node.left, env), ev(node.right, env)
        if isinstance(node.op, ast.Add):
            return a + b
        if isinstance(node.op, ast.Sub):
            return a - b
        if isinstance(node.op, ast.Mult):
            return a * b
        if isinstance(node.op, ast.Div):
            return a / b
        if isinstance(node.op, ast.FloorDiv):
            return a // b
        if isinstance(node.op, ast.Mod) and not isinstance(a, str):
            return a % b
        raise Unsupported('binop')
    if isinstance(node, ast.Subscript):
        v = ev(node.value, env)
        s = node.slice
        if isinstance(s, ast.Slice):
            return v[(ev(s.lower, env) if s.lower else None):
                     (ev(s.upper, env) if s.upper else None):
                     (ev(s.step, env) if s.step else None)]
        return v[ev(s, env)]
    if isinstance(node, ast.Call):
        if isinstance(node.func, ast.Attribute):
            recv = ev(node.func.value, env)
            if isinstance(recv, str) and node.func.attr in SAFE_STR_METHODS:
                args = [ev(a, env) for a in node.args]
                return getattr(recv, node.func.attr)(*args)
            raise Unsupported('method ' + node.func.attr)
        f = ev(node.func, env)
        if f in (len, str):
            return f(*[ev(a, env) for a in node.args])
        raise Unsupported('call')
    raise Unsupported(type(node).__name__)


def run_function(func_node, args):
    """Interpret a straight-line function made of assignments, if-statements
    and returns over the supported expressions."""
    env = dict(args)

    class Ret(Exception):
        def __init__(self, v):
            self.v = v

    def block(stmts):
        for st in stmts:
            if isinstance(st, ast.Expr) and isinstance(
                    st.value, ast.Constant):
                continue
            if isinstance(st, ast.Assign) and len(st.targets) == 1 and \
                    isinstance(st.targets[0], ast.Name):
                env[st.targets[0].id] = ev(st.value, env)
            elif isinstance(st, ast.If):
                block(st.body if ev(st.test, env) else st.orelse)
            elif isinstance(st, ast.Return):
                raise Ret(ev(st.value, env) if st.value is not None
                          else None)
            elif isinstance(st, ast.Pass):
                pass
            else:
                raise Unsupported(type(st).__name__)
    try:
        block(func_node.body)
    except Ret as r:
        return r.v
    return None
