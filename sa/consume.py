"""How a function uses (consumes) the value bound to one of its names.

Shared by C08 (limits), C13 (iterator linearity) and C14 (laziness).
"""
import ast

from sa import model

# callee -> argument positions that are iterated (None = all positional)
EAGER = {
    'builtins.tuple': (0,), 'builtins.list': (0,), 'builtins.set': (0,),
    'builtins.frozenset': (0,), 'builtins.dict': (0,),
    'builtins.sorted': (0,), 'builtins.sum': (0,), 'builtins.min': None,
    'builtins.max': None, 'builtins.any': (0,), 'builtins.all': (0,),
    'builtins.bytes': (0,), 'builtins.bytearray': (0,),
    'functools.reduce': (1,), 'collections.deque': (0,),
    'collections.Counter': (0,), 'collections.OrderedDict': (0,),
    'yaql.language.utils.FrozenDict': (0,),
    'yaql.language.utils.QueueType': (0,),
    'builtins.len': (),          # len(iterator) is a TypeError, not a pull
    'itertools.tee': (0,),       # buffers without bound
    'random.shuffle': (0,), 'random.sample': (0,), 'random.choice': (0,),
    'statistics.mean': (0,), 'heapq.nlargest': (1,),
    'heapq.nsmallest': (1,), 'heapq.heapify': (0,),
    'builtins.reversed': (0,),   # needs a sequence: materialised upstream
    # these pool every input before producing the first result
    'itertools.product': None, 'itertools.permutations': (0,),
    'itertools.combinations': (0,),
    'itertools.combinations_with_replacement': (0,),
}
EAGER_METHODS = {'join': (0,), 'extend': (0,), 'update': (0,),
                 'union': None, 'intersection': None, 'difference': None,
                 'symmetric_difference': None, 'issubset': (0,),
                 'issuperset': (0,), 'extendleft': (0,),
                 'intersection_update': None, 'difference_update': None,
                 'fromkeys': (0,), 'writelines': (0,), 'isdisjoint': (0,)}
LAZY = {
    'builtins.map': 'rest', 'builtins.filter': (1,), 'builtins.zip': None,
    'builtins.enumerate': (0,), 'builtins.iter': (0,),
    'itertools.islice': (0,), 'itertools.chain': None,
    'itertools.chain.from_iterable': (0,),
    'itertools.takewhile': (1,), 'itertools.dropwhile': (1,),
    'itertools.zip_longest': None, 'itertools.accumulate': (0,),
    'itertools.starmap': (1,), 'itertools.filterfalse': (1,),
    'itertools.compress': (0, 1), 'itertools.groupby': (0,),
    'itertools.cycle': (0,),      # lazy, though it remembers what it saw
    'itertools.repeat': (), 'itertools.count': (),
    'itertools.pairwise': (0,), 'itertools.batched': (0,),
    'yaql.language.utils.limit_iterable': (0,),
    'yaql.language.utils.memorize': (0,),
}
NEXT = {'builtins.next'}
LIBRARY_MODULES = {'itertools', 'functools', 'collections', 'heapq',
                   'random', 'statistics', 'json', 'operator', 'math',
                   'bisect', 'string', 're', 'copy', 'pickle'}
TESTS = {'builtins.isinstance', 'builtins.callable', 'builtins.bool',
         'builtins.type', 'builtins.id', 'builtins.hash', 'builtins.repr',
         'builtins.str', 'builtins.hasattr', 'builtins.getattr',
         'yaql.language.utils.is_iterator', 'yaql.language.utils.is_iterable',
         'yaql.language.utils.is_sequence', 'yaql.language.utils.is_mutable',
         'yaql.language.utils.limit_memory_usage', 'builtins.print',
         'builtins.int', 'builtins.float', 'builtins.abs', 'builtins.hex',
         'builtins.round', 'builtins.pow', 'builtins.divmod',
         'builtins.format', 'builtins.ord', 'builtins.chr'}


class Use:
    __slots__ = ('node', 'mode', 'detail', 'via', 'stmt', 'loop_yields',
                 'loop_exits', 'alias', 'chain')

    def __init__(self, node, mode, detail='', via=None):
        self.node = node
        self.mode = mode      # see module docstring of classify()
        self.detail = detail
        self.via = via
        self.stmt = None
        self.loop_yields = False
        self.loop_exits = False
        self.alias = None
        self.chain = []       # every local name the value went through

    def __repr__(self):
        return '<Use %s %s>' % (self.mode, self.detail)


def _positions(spec, nargs):
    if spec is None:
        return set(range(nargs))
    if spec == 'rest':
        return set(range(1, nargs))
    return set(spec)


def is_generator(func_node):
    for n in model.walk_shallow(func_node):
        if isinstance(n, (ast.Yield, ast.YieldFrom)):
            return True
    return False


class Consumption:
    def __init__(self, repo, universe=None):
        self.repo = repo
        self.uni = universe
        self._summ = {}
        self._busy = set()

    # -- summaries of repo functions ----------------------------------------
    def summary(self, fi, pname):
        """How fi treats parameter pname: set of modes."""
        k = (fi.key, pname)
        if k in self._summ:
            return self._summ[k]
        if k in self._busy:
            return set()
        self._busy.add(k)
        modes = set()
        gen = is_generator(fi.node)
        uses = self.uses(fi, pname)
        for u in uses:
            m = u.mode
            if gen and m in ('loop', 'yieldfrom', 'lazy', 'next'):
                m = 'lazy'   # the work happens when the generator is pulled
            modes.add(m)
        # it = iter(p); first = next(it); for x in it: ...  -- several reads
        # of ONE explicit cursor are one pass over p, not two
        reads = [u for u in uses if u.mode in ('loop', 'next', 'yieldfrom')]
        if len(reads) > 1 and 'next' in modes and all(
                u.via == 'builtins.iter' and u.alias for u in reads) and \
                len({u.alias for u in reads}) == 1 and \
                modes & {'loop', 'yieldfrom'}:
            modes.discard('next')
        self._busy.discard(k)
        self._summ[k] = modes
        return modes

    # -- uses -----------------------------------------------------------------
    def uses(self, fi, name, _depth=0, _seen=None):
        """Every use of `name` (a parameter or local of fi), aliases
        followed."""
        out = []
        seen = _seen if _seen is not None else set()
        if (fi.key, name) in seen or _depth > 4:
            return out
        seen.add((fi.key, name))
        body = fi.node.body if not isinstance(fi.node, ast.Lambda) else [
            fi.node.body]
        nodes = []
        for st in body:
            for n in ast.walk(st):
                # nested defs: a closure use of the name
                nodes.append(n)
        for n in nodes:
            if isinstance(n, ast.Name) and n.id == name and isinstance(
                    n.ctx, ast.Load):
                owner = model.enclosing(
                    n, (ast.FunctionDef, ast.AsyncFunctionDef, ast.Lambda))
                if owner is not fi.node and _shadowed(owner, name, fi.node):
                    continue
                for u in self.classify(fi, n, n, _depth, seen):
                    out.append(u)
        return out

    def classify(self, fi, name_node, node, depth, seen):
        """Classify how the value `node` (an expression producing the value
        under study or a lazy view of it) is used by its parent."""
        repo = self.repo
        p = getattr(node, '_parent', None)
        if p is None:
            return []
        mk = lambda mode, detail='': [self._mk(fi, node, mode, detail)]
        if isinstance(p, (ast.For, ast.AsyncFor)):
            if node is p.iter:
                u = self._mk(fi, node, 'loop', model.norm(p.iter))
                u.stmt = p
                u.loop_yields = _body_yields(p.body)
                u.loop_exits = _body_exits(p.body)
                return [u]
            return []
        if isinstance(p, ast.comprehension):
            if node is p.iter:
                comp = getattr(p, '_parent', None)
                if isinstance(comp, ast.GeneratorExp):
                    return self.classify_result(fi, comp, 'genexp', depth,
                                                seen)
                return mk('eager', 'comprehension %s' % type(comp).__name__)
            return mk('test')
        if isinstance(p, ast.YieldFrom):
            return mk('yieldfrom')
        if isinstance(p, ast.Await):
            return mk('other')
        if isinstance(p, ast.Compare):
            if node in p.comparators:
                idx = p.comparators.index(node)
                if isinstance(p.ops[idx], (ast.In, ast.NotIn)):
                    return mk('membership', model.norm(p))
            return mk('test')
        if isinstance(p, ast.Starred):
            pp = getattr(p, '_parent', None)
            if isinstance(pp, ast.Call):
                return mk('star', model.norm(pp))
            return mk('star', 'unpacking')
        if isinstance(p, ast.Return):
            return mk('return')
        if isinstance(p, ast.Yield):
            return mk('yield-element')
        if isinstance(p, ast.Expr):
            return mk('other')
        if isinstance(p, (ast.Assign, ast.AnnAssign, ast.NamedExpr)):
            targets = p.targets if isinstance(p, ast.Assign) else [p.target]
            if node is getattr(p, 'value', None):
                out = []
                for t in targets:
                    if isinstance(t, ast.Name):
                        if t.id == getattr(name_node, 'id', None) and \
                                node is name_node:
                            continue
                        al = self.uses(fi, t.id, depth + 1, seen)
                        for u in al:
                            u.alias = u.alias or t.id
                            u.chain.append(t.id)
                        out.extend(al)
                        if not al:
                            out.append(self._mk(fi, node, 'alias', t.id))
                    elif isinstance(t, (ast.Tuple, ast.List)):
                        out.append(self._mk(fi, node, 'star',
                                            'tuple unpacking'))
                    elif isinstance(t, (ast.Attribute, ast.Subscript)):
                        out.append(self._mk(fi, node, 'store',
                                            model.norm(t)))
                return out
            return []
        if isinstance(p, ast.AugAssign):
            return mk('eager', 'augmented assignment')
        if isinstance(p, ast.Attribute):
            pp = getattr(p, '_parent', None)
            if isinstance(pp, ast.Call) and pp.func is p:
                if p.attr in ('items', 'keys', 'values', 'copy'):
                    return self.classify_result(fi, pp, 'view', depth, seen)
                if p.attr == '__iter__':
                    return self.classify_result(fi, pp, 'iter', depth, seen)
                if p.attr == '__next__':
                    return mk('next')
                return mk('method', p.attr)
            return mk('attr', p.attr)
        if isinstance(p, ast.Subscript):
            if node is p.value:
                return mk('index', model.norm(p))
            return mk('test')
        if isinstance(p, ast.Call):
            if node is p.func:
                return mk('call')
            return self._call_arg(fi, name_node, node, p, depth, seen)
        if isinstance(p, ast.keyword):
            pp = getattr(p, '_parent', None)
            if isinstance(pp, ast.Call):
                return self._call_arg(fi, name_node, node, pp, depth, seen,
                                      kw=p.arg)
            return mk('other')
        if isinstance(p, (ast.BoolOp, ast.IfExp)):
            if isinstance(p, ast.IfExp) and node is p.test:
                return mk('test')
            if isinstance(p, ast.BoolOp):
                # `x or default` keeps flowing; in a test position it is a
                # truth test
                pp = getattr(p, '_parent', None)
                if isinstance(pp, (ast.If, ast.While, ast.IfExp)) and \
                        getattr(pp, 'test', None) is p:
                    return mk('test')
            return self.classify(fi, name_node, p, depth, seen)
        if isinstance(p, (ast.If, ast.While, ast.UnaryOp, ast.Assert)):
            return mk('test')
        if isinstance(p, ast.BinOp):
            return mk('binop', model.norm(p))
        if isinstance(p, (ast.Tuple, ast.List, ast.Set, ast.Dict)):
            return mk('element-of-display')
        if isinstance(p, (ast.JoinedStr, ast.FormattedValue)):
            return mk('test')
        if isinstance(p, ast.withitem):
            return mk('other')
        return mk('other', type(p).__name__)

    def classify_result(self, fi, call, how, depth, seen):
        """The value flows into a lazy view (`call`); classify the use of
        that view."""
        out = self.classify(fi, call, call, depth, seen)
        res = []
        for u in out:
            if u.mode == 'alias':
                u.via = u.via or how
            elif u.mode in ('return', 'yield-element', 'other',
                            'element-of-display'):
                u = self._mk(fi, call, 'lazy', how)
            u.via = u.via or how
            res.append(u)
        if not out:
            res.append(self._mk(fi, call, 'lazy', how))
        return res

    def _call_arg(self, fi, name_node, node, call, depth, seen, kw=None):
        repo = self.repo
        mk = lambda mode, detail='': [self._mk(fi, node, mode, detail)]
        idx = None
        if kw is None:
            for i, a in enumerate(call.args):
                if a is node:
                    idx = i
        f = call.func
        d = repo.resolve(fi.module, f, model.scope_locals(fi))
        nargs = len(call.args)
        if d in TESTS:
            return mk('test', d)
        if d in NEXT:
            return mk('next')
        if d in EAGER:
            if idx is not None and idx in _positions(EAGER[d], nargs):
                return mk('eager', d)
            return mk('test', d)
        if d in LAZY:
            if idx is not None and idx in _positions(LAZY[d], nargs):
                return self.classify_result(fi, call, d, depth, seen)
            return mk('test', d)
        if isinstance(f, ast.Attribute) and d is None and \
                f.attr in EAGER_METHODS:
            if idx is not None and idx in _positions(
                    EAGER_METHODS[f.attr], nargs):
                return mk('eager', '.%s()' % f.attr)
        tgt = repo.lookup(d) if d else None
        if tgt is None and d is None and isinstance(f, ast.Name):
            # nested def of this or an enclosing function
            g = fi
            while g is not None and tgt is None:
                tgt = fi.module.functions.get(g.qualname + '.' + f.id)
                g = g.parent_func
        if isinstance(tgt, model.FuncInfo):
            names = tgt.params()
            if tgt.is_method:
                names = names[1:]
            pname = None
            if kw is not None:
                pname = kw
            elif idx is not None and idx < len(names):
                pname = names[idx]
            elif idx is not None and tgt.node.args.vararg is not None:
                pname = tgt.node.args.vararg.arg
            if pname is None:
                return mk('pass', tgt.key)
            modes = self.summary(tgt, pname)
            if tgt.node.args.vararg is not None and \
                    pname == tgt.node.args.vararg.arg:
                # element of *args: the callee sees a tuple holding it
                modes = self._element_modes(tgt, pname)
            out = []
            gen = is_generator(tgt.node)
            if gen and (modes & {'lazy', 'loop', 'yieldfrom', 'eager',
                                 'membership', 'star', 'next'}):
                # a generator function: nothing happens until it is pulled
                eager_inside = modes & {'eager', 'membership', 'star'}
                res = self.classify_result(fi, call, tgt.key, depth, seen)
                if eager_inside:
                    for u in res:
                        if u.mode == 'lazy':
                            u.mode = 'lazy-then-eager'
                            u.detail = '%s materialises it when pulled' % \
                                tgt.key
                return res
            for m in sorted(modes):
                if m in ('eager', 'loop', 'yieldfrom', 'membership', 'star',
                         'next', 'escape', 'lazy', 'lazy-then-eager',
                         'pass', 'callee-eager', 'callee-loop'):
                    if m == 'lazy':
                        out.extend(self.classify_result(
                            fi, call, tgt.key, depth, seen))
                    elif m == 'pass':
                        out.append(self._mk(fi, node, 'pass', tgt.key))
                    else:
                        mm = {'loop': 'callee-loop',
                              'yieldfrom': 'callee-loop'}.get(m, m)
                        if mm in ('eager', 'membership', 'star'):
                            mm = 'callee-eager'
                        out.append(self._mk(fi, node, mm, tgt.key))
            if 'return' in modes and not out:
                # the callee hands the value back as it is: what happens
                # to the call result happens to the value (returned again,
                # looped over ...) -- it is not wrapped in a lazy view
                res = self.classify(fi, call, call, depth, seen)
                for u in res:
                    u.via = u.via or tgt.key
                return res or mk('test', tgt.key)
            return out or mk('test', tgt.key)
        if isinstance(tgt, model.ClassInfo):
            return mk('escape', tgt.key)
        if d and tgt is None and '.' in d and not d.startswith('yaql.') \
                and d.split('.')[0] in LIBRARY_MODULES:
            # a resolved library callable that is in none of the catalogues
            # (C14 counts it as a reader of a *streaming source*; C08/C13
            # treat it like any other hand-over)
            return mk('libcall', d)
        return mk('pass', model.norm(f))

    def _element_modes(self, fi, vararg):
        """How the callee treats the *elements* of its *args."""
        modes = set()
        handled = False
        # (f(v) for v in args): what happens to each element is what
        # happens to the comprehension variable
        for comp in ast.walk(fi.node):
            if isinstance(comp, ast.comprehension) and isinstance(
                    comp.iter, ast.Name) and comp.iter.id == vararg:
                handled = True
                for t in ast.walk(comp.target):
                    if isinstance(t, ast.Name):
                        modes |= self.summary_local(fi, t.id)
        for u in self.uses(fi, vararg):
            if handled and u.mode in ('lazy', 'eager', 'star', 'test',
                                      'lazy-then-eager'):
                continue
            if u.mode == 'loop' and u.stmt is not None:
                for t in ast.walk(u.stmt.target):
                    if isinstance(t, ast.Name):
                        modes |= self.summary_local(fi, t.id)
            elif u.mode in ('star',):
                modes.add('lazy')    # chain(*args): lazily over each
            elif u.mode in ('eager',):
                modes.add('test')
        return modes

    def summary_local(self, fi, name):
        modes = set()
        gen = is_generator(fi.node)
        for u in self.uses(fi, name):
            m = u.mode
            if gen and m in ('loop', 'yieldfrom', 'lazy', 'next'):
                m = 'lazy'
            modes.add(m)
        return modes

    def _mk(self, fi, node, mode, detail=''):
        u = Use(node, mode, detail)
        return u


def _shadowed(owner, name, top):
    """Is `name` re-bound as a parameter/local of a nested function between
    the use and the analysed function?"""
    n = owner
    while n is not None and n is not top:
        if isinstance(n, (ast.FunctionDef, ast.AsyncFunctionDef, ast.Lambda)):
            a = n.args
            names = {x.arg for x in a.posonlyargs + a.args + a.kwonlyargs}
            if a.vararg:
                names.add(a.vararg.arg)
            if a.kwarg:
                names.add(a.kwarg.arg)
            if name in names:
                return True
        n = model.enclosing(n, (ast.FunctionDef, ast.AsyncFunctionDef,
                                ast.Lambda))
    return False


def _body_yields(body):
    for st in body:
        for n in model.walk_shallow(st):
            if isinstance(n, (ast.Yield, ast.YieldFrom)):
                return True
    return False


def _body_exits(body):
    for st in body:
        for n in model.walk_shallow(st):
            if isinstance(n, (ast.Return, ast.Break, ast.Raise)):
                return True
    return False
