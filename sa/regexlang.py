"""E6 -- regular-language reasoning about the repository's regexes.

re._parser syntax tree -> NFA over a partition alphabet (code points grouped
by membership in every character set either regex mentions, computed over
all of U+0000..U+10FFFF) -> DFA; inclusion, equivalence, emptiness, prefix
conflicts, witnesses.  No regex is ever *matched* against a string.
"""
import re
import re._parser as sre
from re._constants import (ANY, ASSERT, ASSERT_NOT, AT, BRANCH, CATEGORY,
                           IN, LITERAL, MAX_REPEAT, MIN_REPEAT, NEGATE,
                           NOT_LITERAL, RANGE, SUBPATTERN, MAXREPEAT,
                           CATEGORY_DIGIT, CATEGORY_NOT_DIGIT,
                           CATEGORY_SPACE, CATEGORY_NOT_SPACE,
                           CATEGORY_WORD, CATEGORY_NOT_WORD)

MAXCP = 0x110000


class Unsupported(Exception):
    pass


# -- character sets as sorted lists of disjoint [lo, hi] intervals -------------
def _norm(iv):
    iv = sorted(iv)
    out = []
    for lo, hi in iv:
        if out and lo <= out[-1][1] + 1:
            out[-1][1] = max(out[-1][1], hi)
        else:
            out.append([lo, hi])
    return tuple((a, b) for a, b in out)


def _neg(iv):
    out = []
    prev = 0
    for lo, hi in iv:
        if lo > prev:
            out.append((prev, lo - 1))
        prev = hi + 1
    if prev < MAXCP:
        out.append((prev, MAXCP - 1))
    return tuple(out)


_CAT = {}


def _category(pred_name):
    if pred_name in _CAT:
        return _CAT[pred_name]
    if pred_name == 'digit':
        f = str.isdecimal
    elif pred_name == 'space':
        f = str.isspace
    else:
        f = lambda c: c.isalnum() or c == '_'   # noqa: E731
    iv = []
    start = None
    for cp in range(MAXCP):
        if 0xD800 <= cp <= 0xDFFF:
            ok = False
        else:
            ok = f(chr(cp))
        if ok and start is None:
            start = cp
        elif not ok and start is not None:
            iv.append((start, cp - 1))
            start = None
    if start is not None:
        iv.append((start, MAXCP - 1))
    _CAT[pred_name] = _norm(iv)
    return _CAT[pred_name]


def charset(op, av, flags):
    """-> interval tuple for one character-matching node."""
    if op is LITERAL:
        return ((av, av),)
    if op is NOT_LITERAL:
        return _neg(((av, av),))
    if op is ANY:
        if flags & re.DOTALL:
            return ((0, MAXCP - 1),)
        return _neg(((10, 10),))
    if op is IN:
        neg = False
        iv = []
        for o, a in av:
            if o is NEGATE:
                neg = True
            elif o is LITERAL:
                iv.append((a, a))
            elif o is RANGE:
                iv.append((a[0], a[1]))
            elif o is CATEGORY:
                iv.extend(_cat_intervals(a))
            else:
                raise Unsupported('set item %s' % o)
        iv = _norm(iv)
        return _neg(iv) if neg else iv
    raise Unsupported(str(op))


def _cat_intervals(a):
    if a is CATEGORY_DIGIT:
        return _category('digit')
    if a is CATEGORY_NOT_DIGIT:
        return _neg(_category('digit'))
    if a is CATEGORY_SPACE:
        return _category('space')
    if a is CATEGORY_NOT_SPACE:
        return _neg(_category('space'))
    if a is CATEGORY_WORD:
        return _category('word')
    if a is CATEGORY_NOT_WORD:
        return _neg(_category('word'))
    raise Unsupported('category %s' % a)


# -- regex -> abstract syntax over charsets -------------------------------------
class Rx:
    """('set', intervals) | ('cat', [Rx]) | ('alt', [Rx]) |
    ('rep', Rx, lo, hi|None) | ('eps',) | ('nla', Rx, Rx-rest)"""


def parse(pattern, flags=0):
    tree = sre.parse(pattern, flags)
    f = tree.state.flags | flags
    notes = []
    return _seq(list(tree), f, notes), notes


def _seq(items, flags, notes):
    out = []
    i = 0
    while i < len(items):
        op, av = items[i]
        if op is AT:
            notes.append('anchor %s treated as empty' % av)
        elif op in (LITERAL, NOT_LITERAL, ANY, IN):
            out.append(('set', charset(op, av, flags)))
        elif op is BRANCH:
            out.append(('alt', [_seq(list(b), flags, notes)
                                for b in av[1]]))
        elif op is SUBPATTERN:
            out.append(_seq(list(av[3]), flags | av[1] & ~av[2], notes))
        elif op in (MAX_REPEAT, MIN_REPEAT):
            lo, hi, sub = av
            if hi is not MAXREPEAT and hi > 64:
                # expanding x{m,n} for large n explodes the automaton;
                # over-approximate by x{min(m,64),}
                notes.append('bounded repeat {%d,%d} over-approximated by '
                             'an unbounded one' % (lo, hi))
                lo, hi = min(lo, 64), MAXREPEAT
            out.append(('rep', _seq(list(sub), flags, notes), lo,
                        None if hi is MAXREPEAT else hi))
        elif op is ASSERT_NOT and av[0] == 1:
            # negative look-ahead: applies to everything that follows
            rest = _seq(items[i + 1:], flags, notes)
            la = _seq(list(av[1]), flags, notes)
            out.append(('nla', la, rest))
            return ('cat', out)
        else:
            raise Unsupported('regex construct %s' % op)
        i += 1
    return ('cat', out)


def atoms(rx, acc):
    k = rx[0]
    if k == 'set':
        acc.add(rx[1])
    elif k in ('cat', 'alt'):
        for r in rx[1]:
            atoms(r, acc)
    elif k == 'rep':
        atoms(rx[1], acc)
    elif k == 'nla':
        atoms(rx[1], acc)
        atoms(rx[2], acc)
    return acc


class Alphabet:
    """Partition of the code points by membership in every atom."""

    def __init__(self, atom_sets):
        self.atoms = sorted(atom_sets)
        points = {0, MAXCP}
        for iv in self.atoms:
            for lo, hi in iv:
                points.add(lo)
                points.add(hi + 1)
        pts = sorted(points)
        sig_of = {}
        self.classes = []      # list of (signature, representative cp)
        self.members = {}      # signature -> number of code points
        for a, b in zip(pts, pts[1:]):
            sig = tuple(_contains(iv, a) for iv in self.atoms)
            if sig not in sig_of:
                sig_of[sig] = len(self.classes)
                self.classes.append((sig, a))
                self.members[sig] = 0
            self.members[sig] += b - a
        self.index = {iv: i for i, iv in enumerate(self.atoms)}

    def symbols_of(self, iv):
        i = self.index[iv]
        return [n for n, (sig, rep) in enumerate(self.classes) if sig[i]]

    @property
    def size(self):
        return len(self.classes)


def _contains(iv, cp):
    lo, hi = 0, len(iv) - 1
    while lo <= hi:
        mid = (lo + hi) // 2
        a, b = iv[mid]
        if cp < a:
            hi = mid - 1
        elif cp > b:
            lo = mid + 1
        else:
            return True
    return False


# -- automata ---------------------------------------------------------------------
class NFA:
    def __init__(self):
        self.n = 0
        self.eps = {}
        self.delta = {}

    def new(self):
        self.n += 1
        return self.n - 1

    def add_eps(self, a, b):
        self.eps.setdefault(a, set()).add(b)

    def add(self, a, sym, b):
        self.delta.setdefault((a, sym), set()).add(b)


class DFA:
    def __init__(self, nsym, trans, accept, start=0):
        self.nsym = nsym
        self.trans = trans      # list of lists
        self.accept = accept    # set
        self.start = start

    def complete(self):
        return self

    def complement(self):
        return DFA(self.nsym, self.trans, set(range(len(self.trans))) -
                   self.accept, self.start)

    def product(self, other, mode):
        idx = {}
        trans = []
        accept = set()
        work = [(self.start, other.start)]
        idx[work[0]] = 0
        trans.append(None)
        while work:
            a, b = work.pop()
            i = idx[(a, b)]
            row = []
            for s in range(self.nsym):
                t = (self.trans[a][s], other.trans[b][s])
                if t not in idx:
                    idx[t] = len(trans)
                    trans.append(None)
                    work.append(t)
                row.append(idx[t])
            trans[i] = row
            ina, inb = a in self.accept, b in other.accept
            if (mode == 'and' and ina and inb) or (mode == 'or' and (
                    ina or inb)) or (mode == 'diff' and ina and not inb):
                accept.add(i)
        return DFA(self.nsym, trans, accept, 0)

    def witness(self):
        """Shortest accepted word as a list of symbols, or None."""
        from collections import deque
        prev = {self.start: None}
        dq = deque([self.start])
        while dq:
            q = dq.popleft()
            if q in self.accept:
                out = []
                while prev[q] is not None:
                    q, s = prev[q]
                    out.append(s)
                return out[::-1]
            for s in range(self.nsym):
                t = self.trans[q][s]
                if t not in prev:
                    prev[t] = (q, s)
                    dq.append(t)
        return None

    def empty(self):
        return self.witness() is None

    def concat_any_plus(self):
        """L . Sigma+ as a DFA (words with a proper prefix in L)."""
        # NFA: from accepting states, on any symbol go to sink-accept
        n = len(self.trans)
        nfa = NFA()
        for _ in range(n + 1):
            nfa.new()
        sink = n
        for q in range(n):
            for s in range(self.nsym):
                nfa.add(q, s, self.trans[q][s])
                if q in self.accept:
                    nfa.add(q, s, sink)
        for s in range(self.nsym):
            nfa.add(sink, s, sink)
        return determinize(nfa, self.start, {sink}, self.nsym)


def build_nfa(rx, alpha, nfa, start):
    """Returns the end state."""
    k = rx[0]
    if k == 'set':
        end = nfa.new()
        for s in alpha.symbols_of(rx[1]):
            nfa.add(start, s, end)
        return end
    if k == 'cat':
        cur = start
        for r in rx[1]:
            cur = build_nfa(r, alpha, nfa, cur)
        return cur
    if k == 'alt':
        end = nfa.new()
        for r in rx[1]:
            s0 = nfa.new()
            nfa.add_eps(start, s0)
            e = build_nfa(r, alpha, nfa, s0)
            nfa.add_eps(e, end)
        return end
    if k == 'rep':
        sub, lo, hi = rx[1], rx[2], rx[3]
        cur = start
        for _ in range(lo):
            cur = build_nfa(sub, alpha, nfa, cur)
        if hi is None:
            loop = nfa.new()
            nfa.add_eps(cur, loop)
            e = build_nfa(sub, alpha, nfa, loop)
            nfa.add_eps(e, loop)
            return loop
        end = nfa.new()
        nfa.add_eps(cur, end)
        for _ in range(hi - lo):
            cur = build_nfa(sub, alpha, nfa, cur)
            nfa.add_eps(cur, end)
        return end
    if k == 'eps':
        return start
    if k == 'nla':
        # a look-ahead below the top level: the assertion is dropped, so the
        # automaton accepts a SUPERSET of the language (recorded; callers
        # confirm witnesses against the real regex)
        APPROXIMATED.add(id(nfa))
        return build_nfa(rx[2], alpha, nfa, start)
    raise Unsupported(k)


def determinize(nfa, start, accepts, nsym):
    def closure(states):
        stack = list(states)
        seen = set(states)
        while stack:
            q = stack.pop()
            for t in nfa.eps.get(q, ()):
                if t not in seen:
                    seen.add(t)
                    stack.append(t)
        return frozenset(seen)
    s0 = closure({start})
    idx = {s0: 0}
    trans = [None]
    work = [s0]
    accept = set()
    while work:
        S = work.pop()
        i = idx[S]
        row = []
        for sym in range(nsym):
            T = set()
            for q in S:
                T |= nfa.delta.get((q, sym), set())
            T = closure(T)
            if T not in idx:
                idx[T] = len(trans)
                trans.append(None)
                work.append(T)
            row.append(idx[T])
        trans[i] = row
        if S & accepts:
            accept.add(i)
    return DFA(nsym, trans, accept, 0)


def to_dfa(rx, alpha):
    """DFA of an Rx (negative look-ahead handled at the top level of a
    concatenation)."""
    if rx[0] == 'cat' and rx[1] and rx[1][-1][0] == 'nla':
        head = ('cat', rx[1][:-1])
        la, rest = rx[1][-1][1], rx[1][-1][2]
        d_rest = to_dfa(rest, alpha)
        d_la = to_dfa(la, alpha)
        # words of `rest` that do not start with a word of `la`
        bad = prefix_closure_language(d_la)
        tail = d_rest.product(bad, 'diff')
        if head[1]:
            raise Unsupported('look-ahead after a non-empty prefix')
        return tail
    nfa = NFA()
    s = nfa.new()
    e = build_nfa(rx, alpha, nfa, s)
    return determinize(nfa, s, {e}, alpha.size)


def prefix_closure_language(d):
    """L . Sigma* (words having a prefix in L)."""
    n = len(d.trans)
    nfa = NFA()
    for _ in range(n + 1):
        nfa.new()
    sink = n
    for q in range(n):
        if q in d.accept:
            nfa.add_eps(q, sink)
        for s in range(d.nsym):
            nfa.add(q, s, d.trans[q][s])
    for s in range(d.nsym):
        nfa.add(sink, s, sink)
    return determinize(nfa, d.start, {sink}, d.nsym)


APPROXIMATED = set()


class Languages:
    """A family of regexes compared over one common alphabet."""

    def __init__(self, patterns, flags=0):
        self.rx = {}
        self.notes = {}
        acc = set()
        for name, (pat, fl) in patterns.items():
            rx, notes = parse(pat, fl if fl is not None else flags)
            self.rx[name] = rx
            self.notes[name] = notes
            atoms(rx, acc)
        self.alpha = Alphabet(acc)
        self.dfa = {}
        self.approx = set()      # names whose automaton is a superset
        self.patterns = {n: (p, fl if fl is not None else flags)
                         for n, (p, fl) in patterns.items()}
        for n, rx in self.rx.items():
            before = len(APPROXIMATED)
            self.dfa[n] = to_dfa(rx, self.alpha)
            if len(APPROXIMATED) != before:
                self.approx.add(n)

    def _confirm(self, name, word):
        """For an over-approximated language: does the real regex match the
        witness?  (python's re applied to the pattern text and a string the
        analysis produced; nothing of the repository runs.)"""
        if word is None or name not in self.approx:
            return True
        import re as _re
        pat, fl = self.patterns[name]
        try:
            return _re.fullmatch(pat, word, fl or 0) is not None
        except _re.error:
            return False

    def word(self, syms):
        if syms is None:
            return None
        return ''.join(chr(self.alpha.classes[s][1]) for s in syms)

    def symbol_of(self, ch):
        cp = ord(ch)
        sig = tuple(_contains(iv, cp) for iv in self.alpha.atoms)
        for n, (s2, rep) in enumerate(self.alpha.classes):
            if s2 == sig:
                return n
        return None

    def accepts(self, a, text):
        """Membership of a concrete string (anchors ignored)."""
        d = self.dfa[a]
        q = d.start
        for ch in text:
            s = self.symbol_of(ch)
            if s is None:
                return False
            q = d.trans[q][s]
        return q in d.accept

    def difference_witness(self, a, b):
        """A word in L(a) \\ L(b), or None."""
        w = self.word(self.dfa[a].product(self.dfa[b], 'diff').witness())
        if w is not None and not self._confirm(a, w):
            raise Unsupported('look-ahead inside %s: the witness %r of the '
                              'approximation is not a word of the regex'
                              % (a, w))
        return w

    def included(self, a, b):
        return self.dfa[a].product(self.dfa[b], 'diff').empty()

    def equivalent(self, a, b):
        return self.included(a, b) and self.included(b, a)

    def matches_empty(self, a):
        d = self.dfa[a]
        return d.start in d.accept

    def prefix_conflict(self, a, b):
        """A word of L(b) that has a proper prefix in L(a), or None."""
        ext = self.dfa[a].concat_any_plus()
        return self.word(ext.product(self.dfa[b], 'and').witness())

    def intersection_witness(self, a, b):
        return self.word(self.dfa[a].product(self.dfa[b], 'and').witness())


def _nullable(rx):
    k = rx[0]
    if k == 'set':
        return False
    if k == 'cat':
        return all(_nullable(r) for r in rx[1])
    if k == 'alt':
        return any(_nullable(r) for r in rx[1])
    if k == 'rep':
        return rx[2] == 0 or _nullable(rx[1])
    return True


def _has_unbounded(rx):
    k = rx[0]
    if k == 'rep':
        return rx[3] is None or _has_unbounded(rx[1])
    if k in ('cat', 'alt'):
        return any(_has_unbounded(r) for r in rx[1])
    return False


def _nested_ambiguity(rx, alpha, in_loop):
    """Shapes the product construction cannot see because they live in the
    epsilon structure: an unbounded repeat of a nullable body that itself
    repeats ((a*)*), and alternatives inside a loop whose languages share a
    word ((a|a)*)."""
    k = rx[0]
    if k == 'rep':
        unb = rx[3] is None
        if unb and _nullable(rx[1]) and _has_unbounded(rx[1]):
            return 'an unbounded repeat of a body that can match the ' \
                   'empty string and itself repeats (nested quantifiers)'
        return _nested_ambiguity(rx[1], alpha, in_loop or unb)
    if k == 'cat':
        for r in rx[1]:
            x = _nested_ambiguity(r, alpha, in_loop)
            if x:
                return x
        return None
    if k == 'alt':
        if in_loop:
            ds = []
            for r in rx[1]:
                try:
                    ds.append(to_dfa(r, alpha))
                except Unsupported:
                    ds.append(None)
            for i in range(len(ds)):
                for j in range(i + 1, len(ds)):
                    if ds[i] is None or ds[j] is None:
                        continue
                    w = ds[i].product(ds[j], 'and').witness()
                    if w is not None:
                        return 'two alternatives inside a loop match the ' \
                               'same text %r' % ''.join(
                                   chr(alpha.classes[x][1]) for x in w)
        for r in rx[1]:
            x = _nested_ambiguity(r, alpha, in_loop)
            if x:
                return x
    return None


def exponential_ambiguity(pattern, flags=0):
    """Does the backtracking search for `pattern` admit exponentially many
    ways to match some input?  True iff the (epsilon-free) NFA of the regex
    has a state q and a word w with two distinct paths q -w-> q (EDA,
    Weber & Seidl): the classic catastrophic-backtracking shape such as
    (a|a)*, (a*)* or (\\\\.|[^'])* .  Returns a description or None."""
    rx, notes = parse(pattern, flags)
    if rx[0] == 'cat' and rx[1] and rx[1][-1][0] == 'nla':
        rx = ('cat', rx[1][:-1] + [rx[1][-1][2]])
    alpha = Alphabet(atoms(rx, set()))
    shape = _nested_ambiguity(rx, alpha, False)
    if shape:
        return shape
    nfa = NFA()
    s0 = nfa.new()
    end = build_nfa(rx, alpha, nfa, s0)
    n = nfa.n

    def closure(q):
        seen = {q}
        stack = [q]
        while stack:
            x = stack.pop()
            for t in nfa.eps.get(x, ()):
                if t not in seen:
                    seen.add(t)
                    stack.append(t)
        return seen
    clo = [closure(q) for q in range(n)]
    # count epsilon paths: two different epsilon routes between the same
    # states inside a loop are ambiguity too, so keep multiplicities
    step = {}
    for q in range(n):
        for a in range(alpha.size):
            tgt = {}
            for x in clo[q]:
                for t in nfa.delta.get((x, a), ()):
                    tgt[t] = tgt.get(t, 0) + 1
            if tgt:
                step[(q, a)] = tgt
    # only states that start a consuming transition or are the start matter
    reach = {s0}
    stack = [s0]
    while stack:
        q = stack.pop()
        for a in range(alpha.size):
            for t in step.get((q, a), ()):
                if t not in reach:
                    reach.add(t)
                    stack.append(t)
    # product graph
    succ = {}
    for p in reach:
        for q in reach:
            out = set()
            for a in range(alpha.size):
                tp = step.get((p, a))
                tq = step.get((q, a))
                if tp and tq:
                    for x in tp:
                        for y in tq:
                            out.add((x, y))
            if out:
                succ[(p, q)] = out
    # direct double edges q -a-> t with multiplicity > 1 inside a cycle
    # Tarjan SCC
    index = {}
    low = {}
    onstack = set()
    st = []
    sccs = []
    counter = [0]
    import sys
    sys.setrecursionlimit(max(10000, sys.getrecursionlimit()))

    def strong(v):
        index[v] = low[v] = counter[0]
        counter[0] += 1
        st.append(v)
        onstack.add(v)
        for w in succ.get(v, ()):
            if w not in index:
                strong(w)
                low[v] = min(low[v], low[w])
            elif w in onstack:
                low[v] = min(low[v], index[w])
        if low[v] == index[v]:
            comp = []
            while True:
                w = st.pop()
                onstack.discard(w)
                comp.append(w)
                if w == v:
                    break
            sccs.append(comp)
    for v in list(succ):
        if v not in index:
            strong(v)
    for comp in sccs:
        if len(comp) == 1 and comp[0] not in succ.get(comp[0], ()):
            continue
        diag = [v for v in comp if v[0] == v[1]]
        off = [v for v in comp if v[0] != v[1]]
        if diag and off:
            q = diag[0][0]
            # a short word that loops: breadth-first from (q,q) to an
            # off-diagonal pair and back
            return 'state %d can be re-entered along two different paths ' \
                   'on the same input (e.g. via the pair of states %s)' % (
                       q, off[0])
    return None
