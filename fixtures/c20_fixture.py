"""Positive control for C20/R20f: never imported, only parsed."""
import datetime


def bad_rebuild_fieldwise(value, zone):
    return datetime.datetime(
        value.year, value.month, value.day, value.hour, value.minute,
        value.second, value.microsecond, zone)


def ok_replace(value, zone):
    return value.replace(tzinfo=zone)


def ok_literal(zone):
    return datetime.datetime(1970, 1, 1, tzinfo=zone)
