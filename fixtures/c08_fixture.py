"""Positive control for C08/R08i: never imported, only parsed."""


def bad_drains_element(items):
    result = {}
    for t in items:
        pair = tuple(t)
        result[pair[0]] = pair[1]
    return result


def bad_sorts_element(rows):
    return [sorted(row) for row in rows]


def ok_reads_two(items):
    result = {}
    for t in items:
        it = iter(t)
        result[next(it)] = next(it)
    return result


def ok_sized_element(items):
    out = []
    for t in items:
        if isinstance(t, (list, tuple)):
            out.append(tuple(t))
    return out
