"""Positive control for C09/R09a: never imported, only parsed.

bad_* write through their argument and must be flagged on every run; ok_* do
the same job on a copy and must stay silent."""


def bad_insert(collection, position, value):
    collection.insert(position, value)
    return collection


def bad_update(left, right):
    left.update(right)
    return left


def bad_sort(collection, selector):
    collection.sort(key=selector)
    return collection


def bad_nested(d, key, value):
    d[key].append(value)
    return d


def bad_alias(items):
    x = items
    x[0] = None
    return x


def _helper_clear(lst):
    del lst[:]


def bad_via_helper(data):
    _helper_clear(data)
    return data


def ok_insert(collection, position, value):
    copy = list(collection)
    copy.insert(position, value)
    return copy


def ok_update(left, right):
    d = dict(left)
    d.update(right)
    return d


def ok_rebind(parameters):
    parameters = dict(parameters)
    for name in list(parameters):
        del parameters[name]
    return parameters


def ok_group(collection):
    groups = {}
    for t in collection:
        groups.setdefault(t, []).append(t)
    return groups
