"""Positive control for R13c / R12h (absence is not null): never imported,
only parsed."""


def bad_none_sentinel(collection, predicate):
    previous = None
    run = []
    for item in collection:
        current = predicate(item)
        if previous is not None and current != previous:
            yield run
            run = []
        run.append(item)
        previous = current
    if run:
        yield run


def bad_lookup_default(values, kwargs):
    if kwargs.pop('name', None) is not None:
        return values
    found = kwargs.get('other')
    if found is None:
        return None
    return found


def ok_marker_sentinel(collection, predicate, NO_VALUE=object()):
    previous = NO_VALUE
    for item in collection:
        current = predicate(item)
        if previous is not NO_VALUE and current != previous:
            yield item
        previous = current


def ok_none_means_not_configured(collection, selector):
    if selector is None:
        return list(collection)
    return [selector(t) for t in collection]


def ok_membership(values, kwargs):
    if 'name' in kwargs:
        return kwargs.pop('name')
    return values


def bad_recycles_buffer(collection, predicate):
    part = []
    for item in collection:
        if predicate(item):
            yield part
            del part[:]
        else:
            part.append(item)
    if part:
        yield part


def ok_rebinds_buffer(collection, predicate):
    part = []
    for item in collection:
        if predicate(item):
            yield part
            part = []
        else:
            part.append(item)
    if part:
        yield part
