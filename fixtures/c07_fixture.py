"""Positive control for C07/R07a: never imported, only parsed.

bad_format is the very function bug 2048114 removed from the library."""


def bad_format(string, *args, **kwargs):
    return string.format(*args, **kwargs)


def bad_percent(template, value):
    return template % value


def bad_getattr(obj, key):
    return getattr(obj, key)


def bad_vars(obj):
    return dict(vars(obj))


def bad_dunder(obj):
    return obj.__class__.__name__


def bad_dict_or_attr(d, key):
    try:
        return d[key]
    except (TypeError, KeyError):
        return getattr(d, key, None)


def ok_constant_template(a, b):
    return '{}:{}'.format(a, b)


def ok_probe(value):
    return getattr(value, '__yaqlization__', None)
