"""Positive control for C14/R14f: never imported, only parsed."""


def bad_materialises_inner(collection, selector):
    for item in collection:
        inner = selector(item)
        inner = tuple(inner)
        yield from inner


def ok_streams_inner(collection, selector):
    for item in collection:
        inner = selector(item)
        yield from inner
