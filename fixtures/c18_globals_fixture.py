"""Positive control for R18g / R01i (process-global setters): never imported,
only parsed."""
import contextlib
import os
import sys


@contextlib.contextmanager
def bad_unlimited_digits():
    previous = sys.get_int_max_str_digits()
    sys.set_int_max_str_digits(0)
    try:
        yield
    finally:
        sys.set_int_max_str_digits(previous)


def bad_environment(name, value):
    os.environ[name] = value


def ok_reads_only():
    return sys.get_int_max_str_digits(), os.environ.get('HOME')
