"""Positive control for C01/R01g: never imported, only parsed."""
import collections
import copy


class BadSharedBuffer:
    def __init__(self, lexer):
        self._lexer = lexer
        self._ahead = collections.deque()

    def clone(self):
        result = copy.copy(self)
        result._lexer = self._lexer.clone()
        return result

    def token(self):
        if self._ahead:
            return self._ahead.popleft()
        return self._lexer.token()


class OkRebinds:
    def __init__(self, lexer):
        self._lexer = lexer
        self._ahead = collections.deque()

    def clone(self):
        result = copy.copy(self)
        result._lexer = self._lexer.clone()
        result._ahead = collections.deque()
        return result


class OkConstructs:
    def __init__(self, lexer):
        self._lexer = lexer
        self._ahead = []

    def clone(self):
        return OkConstructs(self._lexer.clone())
