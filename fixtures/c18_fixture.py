"""Positive control for C18/R18b/R18c: never imported, only parsed."""

_scratch = []
_last = None


class Scratch:
    def __init__(self):
        self.items = []

    def push(self, x):
        self.items.append(x)


_SHARED = Scratch()


def bad_global_list(collection):
    for t in collection:
        _scratch.append(t)
    return list(_scratch)


def bad_global_rebind(value):
    global _last
    _last = value
    return value


def bad_default(value, seen=[]):
    seen.append(value)
    return len(seen)


def ok_local(collection):
    out = []
    for t in collection:
        out.append(t)
    return out


def ok_local_object(collection):
    s = Scratch()
    for t in collection:
        s.push(t)
    return s.items
