"""Positive control for C10/R10e: never imported, only parsed."""


def bad_memo_by_id(obj, cache={}):
    key = id(obj)
    if key not in cache:
        cache[key] = list(obj)
    return cache[key]


def bad_memo_closure():
    seen = {}

    def rec(obj):
        if id(obj) in seen:
            return seen[id(obj)]
        seen[id(obj)] = tuple(obj)
        return seen[id(obj)]
    return rec


def ok_identity_test(a, b):
    return id(a) == id(b)
