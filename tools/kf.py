#!/venv/bin/python
"""Maintain /verif/known_findings.json (development-time only; checks never write it).
  tools/kf.py fixed C01 R01a <site> <commit> "<what failed>" "<demonstration>"
  tools/kf.py known C07 R07f <site> "<what fails>" "<demonstration>"
"""
import json, os, sys
P = os.path.join(os.path.dirname(os.path.dirname(os.path.abspath(__file__))), 'known_findings.json')
d = json.load(open(P))
a = sys.argv[1:]
if a[0] == 'fixed':
    _, pid, rule, site, commit, what, demo = a
    e = {'property': pid, 'rule': rule, 'site': site, 'status': 'fixed', 'commit': commit, 'what': what,
         'demonstration': demo, 'line': 'fixed: property=%s %s %s' % (pid, commit, what)}
else:
    _, pid, rule, site, what, demo = a
    e = {'property': pid, 'rule': rule, 'site': site, 'status': 'known', 'what': what, 'demonstration': demo,
         'line': 'known: property=%s %s' % (pid, what)}
d['findings'] = [x for x in d['findings'] if not (x['property'] == pid and x['rule'] == rule and x['site'] == site)]
d['findings'].append(e)
d['findings'].sort(key=lambda x: (x['property'], x['rule'], x['site']))
json.dump(d, open(P, 'w'), indent=1); open(P, 'a').write('\n')
print(e['line'])
