#!/venv/bin/python
"""Ad-hoc mutation probe (development aid, not a check):

  tools/trymut.py FILE 'old text' 'new text' CHECK [CHECK...]

copies /repo to a scratch dir under /tmp, replaces the first occurrence of
`old text` in FILE (path relative to the repo root), runs the given checks
with VERIF_REPO pointing at the copy (analysis only, nothing of the copy is
executed except by C02/C12's generated views), prints the verdict lines and
removes the copy.  Evidence is written to a scratch evidence dir.
"""
import os
import shutil
import subprocess
import sys
import tempfile
import signal
signal.signal(signal.SIGPIPE, signal.SIG_DFL)

HERE = os.path.dirname(os.path.dirname(os.path.abspath(__file__)))


def main():
    fn, old, new = sys.argv[1:4]
    checks = sys.argv[4:]
    tmp = tempfile.mkdtemp(prefix='yaql-st-')
    try:
        dst = os.path.join(tmp, 'repo')
        shutil.copytree('/repo', dst, ignore=shutil.ignore_patterns(
            '.git', '__pycache__', '*.pyc', 'releasenotes'))
        p = os.path.join(dst, fn)
        s = open(p).read()
        old = old.encode().decode('unicode_escape') if '\\n' in old else old
        new = new.encode().decode('unicode_escape') if '\\n' in new else new
        if old not in s:
            print('PATTERN NOT FOUND')
            return 3
        s = s.replace(old, new, 1)
        open(p, 'w').write(s)
        env = dict(os.environ, VERIF_REPO=dst,
                   VERIF_EVIDENCE_DIR=os.path.join(tmp, 'ev'))
        for c in checks:
            r = subprocess.run([os.path.join(HERE, 'check'), c], env=env,
                               capture_output=True, text=True)
            lines = [line for line in (r.stdout + r.stderr).splitlines()
                     if line.startswith(('VIOLATION', 'ANALYSIS-ERROR',
                                         'KNOWN', 'OK ', '   R'))]
            print('%s exit=%d' % (c, r.returncode))
            for line in lines[:12]:
                print('   ' + line[:230])
    finally:
        shutil.rmtree(tmp, ignore_errors=True)


if __name__ == '__main__':
    sys.exit(main())
