#!/venv/bin/python
"""Confirm and evaluate a seeded change (development tool, not a check).

  tools/seedeval.py <property> <patch.diff> <demo.py> [--save <seed-id>]
                    [--needs "..."] [--note "..."]

1. fresh scratch worktree of /repo HEAD under /tmp (removed afterwards)
2. demo on the clean tree must exit 0
3. `git apply` the patch; the package must import; the repository's own
   test-suite must pass (366)
4. demo on the changed tree must exit non-zero
5. every claimed check is run on the changed tree (VERIF_REPO=<worktree>,
   scratch evidence dir) -- records which checks exit 1 and which rules fire
6. with --save: writes /verif/seeded/<seed-id>/{patch.diff,demo.py,meta.json}
"""
import json
import os
import shutil
import subprocess
import sys
import tempfile
import time

VERIF = os.path.dirname(os.path.dirname(os.path.abspath(__file__)))
PY = '/venv/bin/python'


def sh(cmd, cwd=None, env=None, timeout=900):
    r = subprocess.run(cmd, cwd=cwd, env=env, capture_output=True, text=True,
                       timeout=timeout)
    return r.returncode, r.stdout + r.stderr


def main(argv):
    prop, patch, demo = argv[0], os.path.abspath(argv[1]), \
        os.path.abspath(argv[2])
    save = argv[argv.index('--save') + 1] if '--save' in argv else None
    needs = argv[argv.index('--needs') + 1] if '--needs' in argv else ''
    note = argv[argv.index('--note') + 1] if '--note' in argv else ''
    sys.path.insert(0, VERIF)
    import importlib.util
    from importlib.machinery import SourceFileLoader
    chk = SourceFileLoader('chk', os.path.join(VERIF, 'check')).load_module()
    claimed = chk.CLAIMED
    wt = tempfile.mkdtemp(prefix='yaql-seed-')
    os.rmdir(wt)
    res = {'property': prop, 'ran': []}
    try:
        rc, out = sh(['git', '-C', '/repo', 'worktree', 'add', '-q',
                      '--detach', wt, 'HEAD'])
        if rc:
            print(out)
            return 2
        env = dict(os.environ, PYTHONPATH=wt, PYTHONDONTWRITEBYTECODE='1')
        os.makedirs(os.path.join(wt, 'out'), exist_ok=True)
        shutil.copy(demo, os.path.join(wt, 'out', 'demo.py'))
        rc, out = sh([PY, 'out/demo.py'], cwd=wt, env=env, timeout=300)
        res['demo_clean_exit'] = rc
        res['ran'].append('demo on clean worktree of /repo HEAD: exit %d' %
                          rc)
        rc, out = sh(['git', 'apply', '--whitespace=nowarn', patch], cwd=wt)
        if rc:
            print('PATCH DOES NOT APPLY\n' + out)
            res['applies'] = False
            print(json.dumps(res, indent=1))
            return 2
        rc, out = sh([PY, '-c', 'import yaql, sys; print(yaql.__file__)'],
                     cwd=wt, env=env)
        res['imports'] = rc == 0 and wt in out
        t0 = time.time()
        rc, out = sh([PY, '-m', 'pytest', '-q', '-p', 'no:cacheprovider',
                      '--timeout=900'], cwd=wt, env=env)
        tail = [l for l in out.strip().splitlines() if 'passed' in l or
                'failed' in l or 'error' in l.lower()]
        res['tests_exit'] = rc
        res['tests_summary'] = tail[-1] if tail else out[-200:]
        res['ran'].append('repository test-suite on the changed tree: %s' %
                          res['tests_summary'])
        sh(['git', 'checkout', 'yaql/language/parser.out'], cwd=wt)
        rc, out = sh([PY, 'out/demo.py'], cwd=wt, env=env, timeout=300)
        res['demo_changed_exit'] = rc
        res['demo_changed_tail'] = out.strip().splitlines()[-3:]
        res['ran'].append('demo on the changed tree: exit %d' % rc)
        ev = tempfile.mkdtemp(prefix='yaql-seed-ev-')
        cenv = dict(os.environ, VERIF_REPO=wt, VERIF_EVIDENCE_DIR=ev,
                    PYTHONDONTWRITEBYTECODE='1')
        fired = {}
        for pid in claimed:
            rc, out = sh([os.path.join(VERIF, 'check'), pid], env=cenv)
            lines = out.splitlines()
            rules = []
            for i, line in enumerate(lines):
                if line.startswith('VIOLATION') and i + 1 < len(lines):
                    rules.append(lines[i + 1].strip()[:300])
                if line.startswith('ANALYSIS-ERROR'):
                    rules.append(line[:300])
            if rc != 0:
                fired[pid] = {'exit': rc, 'reports': rules[:6]}
        shutil.rmtree(ev, ignore_errors=True)
        res['checks_fired'] = fired
        res['detected_by_own_property'] = prop in fired and \
            fired[prop]['exit'] == 1
        res['detected_by_any'] = any(v['exit'] == 1 for v in fired.values())
        res['ran'].append('all %d claimed checks on the changed tree '
                          '(VERIF_REPO=<scratch worktree>)' % len(claimed))
        valid = res['demo_clean_exit'] == 0 and res['tests_exit'] == 0 and \
            res['demo_changed_exit'] != 0 and res['imports']
        res['confirmed'] = valid
        print(json.dumps(res, indent=1))
        if save and valid:
            d = os.path.join(VERIF, 'seeded', save)
            os.makedirs(d, exist_ok=True)
            shutil.copy(patch, os.path.join(d, 'patch.diff'))
            shutil.copy(demo, os.path.join(d, 'demo.py'))
            meta = {
                'id': save, 'property': prop,
                'needs_to_manifest': needs, 'note': note,
                'confirmed': {
                    'demo_on_clean_tree_exit': res['demo_clean_exit'],
                    'tests_on_changed_tree': res['tests_summary'],
                    'demo_on_changed_tree_exit': res['demo_changed_exit'],
                },
                'what_was_run': res['ran'],
                'checks_fired': fired,
                'detected_by_own_property': res[
                    'detected_by_own_property'],
                'detected_by_any_check': res['detected_by_any'],
                'repo_head': sh(['git', '-C', '/repo', 'rev-parse',
                                 '--short', 'HEAD'])[1].strip(),
            }
            with open(os.path.join(d, 'meta.json'), 'w') as f:
                json.dump(meta, f, indent=1)
            print('saved to', d)
        return 0 if valid else 3
    finally:
        sh(['git', '-C', '/repo', 'worktree', 'remove', '--force', wt])
        shutil.rmtree(wt, ignore_errors=True)


if __name__ == '__main__':
    sys.exit(main(sys.argv[1:]))
