#!/venv/bin/python
"""Regenerates /verif/MANIFEST.json from the table below (kept in one place so
that claimed / not-applicable lists never drift apart)."""
import json
import os

HERE = os.path.dirname(os.path.dirname(os.path.abspath(__file__)))

TRUST = ('Static rule conformance decided from /repo source on every run. '
         'Trusted base: CPython ast module, the rule tables in '
         '/verif/sa/rules (each exception listed with its reason), ')

P = {
 'C01': dict(
  tech='effect analysis (shared-mutable-state / who-writes-what) over the parse path, incl. ply lexer hand-off',
  text='Sufficient structural condition: no mutable location is shared between two parses of one engine (fresh ply lexer per call or one lock shared by every engine built around that lexer, token/grammar actions store only into per-call objects and never read the per-parse parser state of ply, error hook raises so ply never enters recovery; methods of the lexer, parser, factory and engine classes store into the instance and never into class-level or module-level containers shared by every engine of the process; clone() of a repository class that stands in for the lexer shares no mutable attribute with the original; no method of the ply lexer that mutates a container its clones share -- derived from ply/lex.py on every run -- is called; no interpreter-wide setter such as sys.set_int_max_str_digits is called). If the rules pass, the property holds for all texts, histories and schedules given ply\'s documented contract.',
  note=TRUST + 'ply 3.11 LRParser.parse keeps its stacks in locals; Lexer.clone() gives an independent cursor.',
  ref='6/C01'),
 'C02': dict(
  cat='translation_validation',
  tech='LALR-table conformance query (operator table -> generated grammar -> automaton), per configuration; no text is ever parsed',
  text='Translation validation of the table->grammar generator: for each analysed operator table the generated LALR automaton\'s shift/reduce decision at every (completed operator item, operator look-ahead) pair is compared with what the table dictates; these decisions are the only points where two parse trees of one token string can diverge, so conformance decides the property for every expression of that engine. Quantifies over configurations by enumeration (default, legacy, and a family of insert_operator tables in the thorough tier). The reduce actions are evaluated abstractly for every operator symbol of the standard table, with and without an alias, and must build the same kind of node for all of them. The operator words of the default table are those the language reference lists.',
  note=TRUST + 'ply\'s LALR construction and LR driver. Tables outside the analysed family are validated per output, not proved for all inputs.',
  ref='6/C02'),
 'C03': dict(
  tech='exception-escape analysis of lexer/parser actions + guard-regex vs partial-conversion domain',
  text='Decides that no non-YAQL exception can escape the token/grammar actions: every partial conversion (int/float/codecs.decode/chr/...) is either applied to text whose guard regex is included in the conversion\'s domain or sits in a try whose handler raises a YaqlParsingException subclass; error hooks raise YAQL exceptions on every path; reported positions are unmodified token positions; the text handed to ply is the text the caller passed; no token regex is exponentially ambiguous; no function on the parse path is recursive.',
  note=TRUST + 'ply\'s token loop and LR driver terminate and never raise anything themselves once t_error/p_error raise.',
  ref='6/C03'),
 'C04': dict(
  tech='scope-discipline dataflow (reaching definitions of the context handed to payloads / lambdas / writers)',
  text='Necessary clauses only (scope discipline): each payload call runs in a child context created per invocation; lambdas evaluate in a child of their definition context; context-writing library functions write only into their own injected context; the collection overload of the member operator answers every element through the member-operator delegate; a named unpack makes no positional binding; lambdas evaluated in a callee-chosen context are a closed reviewed list and binders store eagerly evaluated values; get_delegate, evaluated abstractly on 60 definition/call situations, creates one child context per invocation and converts every argument in it. Equality with a reference interpreter is NOT decided.',
  note=TRUST + 'decides the named structural clauses, not the values computed.',
  ref='6/C04'),
 'C05': dict(
  tech='resolution-skeleton checks: error-class control dependence on the receiver test, must-pass-through of value_type.check for every argument slot, loop-exit (first layer wins), handler typing, laziness agreement scope; plus the shared sweep / kind-predicate / layer-walk rules',
  text='Necessary structural clauses of the documented 8-step procedure, NOT its input/output relation: each resolution error class is raised on the right side of the receiver test and at the right stage (unknown iff the collection is empty); in both phases every argument value passes value_type.check and failing it is the only thing that excludes an overload; every slot handed to the payload comes from the checker; the layer loop is left at the first layer with a winner; only ArgumentException excludes an overload; the agreed lazy set spans all layers and is keyed like the evaluation sweep; eager arguments are evaluated in one sweep shared by all candidates; kind predicate; nearest-first layer walk stopping at exclusive layers (also for any subclass that overrides the walk); the specificity comparison pairs keyword parameters by keyword name. In addition call / choose_overload / map_args / get_delegate are evaluated abstractly on 648 + 12 + 60 + 44 call situations (opaque candidates, types, expressions and contexts whose answers the situation fixes) and the outcome and call discipline are compared with the documented rules; this also serves as a second opinion when a structural rule does not apply to a new spelling of the procedure. Which overload the arity/keyword/default arithmetic of map_args and the specificity comparison select is not decided.',
  note=TRUST + 'necessary clauses only; order independence of the winner is decided under C06.',
  ref='7 and Appendix E'),
 'C06': dict(
  tech='order-taint analysis of loops over unordered overload sets on the resolution path',
  text='Sufficient condition: every loop on the resolution path that iterates an unordered collection carries state only through order-insensitive forms; order-tainted lists are only used order-insensitively; the all-equal idiom on lazy sets is symmetric; registration state is updated by commutative operations only; a merged layer is the union of what its members offer; clone() copies the parameter definitions it later edits; the outcome of the abstractly evaluated overload choice is the same for every permutation of every layer (648 situations). If it passes, resolution cannot depend on enumeration order for any overload family.',
  note=TRUST + 'SmartType.check / is_specialization_of are pure functions of their operands.',
  ref='6/C06'),
 'C07': dict(
  tech='who-may-call / must-pass-through analysis of reflection sinks over all evaluation-time code',
  text='Decides which code may touch host-object members: reflective sinks (dynamic getattr/setattr, vars, format with data templates, subscripts on host objects, calls of data) are enumerated over the whole library and must be in the owner table, dominated by name validation on the raw name, and capability-typed. The decision table of _validate_name and of the Yaqlized checker is decided by exhaustive abstract evaluation over a bounded abstraction (names x lists of <= 2 opaque entries x every match valuation). The predicates that classify values found in the data (is_iterable, is_sequence, ...) only apply type tests to them. Matching semantics of whitelist entries are values and not decided.',
  note=TRUST + 'host-supplied callables (yaqlized methods, predicates) are host code.',
  ref='6/C07'),
 'C08': dict(
  tech='declared-type vs body-consumption analysis of every registered overload; must-pass-through for quota/limit calls',
  text='Decides that every parameter whose elements a library function consumes is declared with a limiting smart type (or consumed through limit_iterable), that the finaliser iterates only through the limiter, that runner.call and SmartType.convert apply the quota on every path, that repetition operators check before allocating, that limit_memory_usage measures every sample, that no eager consumer is applied to an element of a collection argument (elements are not limit-wrapped), and that loops growing a local container per element apply the quota inside the loop. The arithmetic of the bounds is not decided.',
  note=TRUST + 'limit_iterable / limit_memory_usage bodies are checked structurally (raise inside the loop / before return), their numeric comparisons are not.',
  ref='6/C08'),
 'C09': dict(
  tech='effect analysis (in-place mutation of parameter-derived values, context/node/definition writes) over all evaluation-time functions',
  text='Sufficient for the "unchanged" clauses: no evaluation-time code path performs an in-place write on a value derived from a non-hidden parameter, on the host\'s context chain, on expression nodes or on function definitions; classes that store into self after construction are instantiated per call, never when the library is registered. Does not decide equal results on re-evaluation for nondeterministic functions.',
  note=TRUST + 'host callables are outside the analysis.',
  ref='6/C09'),
 'C10': dict(
  tech='abstract interpretation of convert_output_data / convert_input_data over a finite container-shape domain x option flags',
  text='Type-level behaviour of the finaliser on every container shape (depth 2, thorough 3) under the 4 option combinations: no unhashable-element error, output plain for those options; every statement result passes through the finaliser, which hands the value out unconverted exactly when the host set yaql.convertOutputData to false (81 option scenarios evaluated abstractly); the converters keep no id()-keyed cache; the engine keeps a copy of its options; a layer that binds a variable to null is not skipped (shared with C17). Equality of values is not decided.',
  note=TRUST + 'ABC memberships of builtin container kinds are looked up from the interpreter.',
  ref='6/C10'),
 'C11': dict(
  tech='evaluation-site enumeration + control-dependence / at-most-once path analysis of lazy operands',
  text='Decides: argument evaluation sites sit in one sweep outside candidate loops and are unreachable from matching code; the lazy argument set is keyed by index / call keyword like the sweep; the functions named in the statement declare their operands lazy and call the unselected operand only under the selecting test; per-element callables are not applied from (anything reachable from) comparison methods; positional arguments are swept before keyword arguments; the callable built for a Lambda evaluates on every invocation; the plumbing every collection argument travels through does not read ahead of its consumer; in every call situation each eager argument is evaluated exactly once, after mapping and before any delegate is requested, positional before keyword, and lazy arguments are not evaluated; no expression node re-dispatches its evaluation from an exception handler; a stored per-group lambda is applied at most once on a path without a failed application. Full trace equality with an order model is not decided.',
  note=TRUST + 'necessary clauses.',
  ref='6/C11'),
 'C12': dict(
  tech='declaration-level checks: keyword-name language, declared (AST) vs effective (reflected) registry diff, kind predicate def-use, bounded LALR-table simulation of argument-list shapes with abstractly interpreted actions',
  text='Necessary conditions at declaration level: every visible parameter has a writable, unique keyword name; the registry recovered from decorators agrees with the effective registry (name, kind, no_kwargs, parameter order, aliases, laziness); runner.call tests is_function / is_method on the right branches; on the generated LALR tables every bounded pattern of value/empty positional slots is accepted and yields one entry per slot; the lazy set is keyed like the sweep; hidden parameters of **kwargs functions are unwritable names; clone() copies parameter definitions; call() forwards kwargs keys verbatim; argument mapping never decides presence of a keyword by comparing a looked-up value with None; kind predicate, lazy keys and the mapping of positional / keyword / null-valued keyword arguments are also decided by abstract evaluation of the resolution procedure; the keyword filter of call() keeps exactly the names is_keyword accepts. Result equality across spellings is not decided.',
  note=TRUST + 'reflection executes import-time and registration code only, never runner.call.',
  ref='6/C12'),
 'C13': dict(
  tech='iterator-linearity (consumed-at-most-once per path) analysis of iterator-admitting parameters',
  text='Necessary clauses: no local that means nothing-yet while it is None is bound to a value of the evaluation (null is a value); a whole-stream read of a cursor that an earlier read ran to its end sees nothing; FrozenDict.__hash__ combines its items commutatively; a generator does not change in place a container it has yielded; and along every path a parameter that may hold a one-shot iterator is consumed at most once unless first re-bound to a re-iterable or an explicit cursor, and the premise that utils.memorize hands out an independent cursor per pass. Agreement with a reference model is not decided.',
  note=TRUST + 'one clause only.',
  ref='6/C13'),
 'C14': dict(
  tech='laziness / short-circuit shape analysis of every streaming payload and of the limiter plumbing',
  text='Decides laziness of every streaming operator named in the statement: the source is consumed only inside yielding loops or by lazy builtins, never by an eager consumer; searches return from inside the loop; the wrapper classes of the plumbing do not answer len/truth/membership by reading the source; uncatalogued library callees count as readers; no eager consumer is applied to the result of a per-element lambda inside a streaming operator. The exact "+1" of the bound is arithmetic and not decided.',
  note=TRUST + 'itertools/map/filter/zip laziness.',
  ref='6/C14'),
 'C15': dict(
  tech='type-level overload kind-matrix + body-shape checks of operator wrappers',
  text='Type-level: which scalar kinds each operator overload admits (bool never as a number, null rows complete, unrelated kinds unmatched), ordering siblings agree, null truth table constants, wrappers return the Python operation of their symbol, the number x number and str x str overloads and =/!= ARE the plain Python operation, null is no arithmetic operand, check() overrides on scalar operand types only narrow the inherited check, int division uses // and % (decided by abstract evaluation under the four int / non-int assumptions), and every operator symbol is reduced to an operator call node (shared with C02). Python\'s own int/float/str semantics are the trusted base for the algebraic laws.',
  note=TRUST + 'Python integer/float/str semantics.',
  ref='6/C15'),
 'C16': dict(
  tech='regular-language checks on the lexer\'s token/escape regexes + def-use in token actions',
  text='Lexer-level necessary clauses: escapes are decoded per matched escape, the escape alternatives cover the documented set without shadowing, quoted-token regexes denote Q([^Q\\\\]|\\\\.)*Q, keyword guard and keyword table, context-free word classification, number conversion choice (decided by abstract evaluation of the token actions, with representatives of 41, 1283 and 4001 digits: the value is int() of the whole text), constant nodes carry the token value, the lexer sees the text the caller passed. The round trip for every string is not decided.',
  note=TRUST + 're._parser syntax trees of the token regexes.',
  ref='6/C16'),
 'C17': dict(
  tech='interface-discipline checks across the three context classes (normalisation, own-layer, ask_parent gating, exclusivity, merge)',
  text='Necessary clauses: every _data access uses a normalised key; membership/keys never reach the parent; parent use is gated by ask_parent; collect_functions stops at exclusive layers (every override is held to the same obligations); create_child_context of every context class builds the child on the context itself; the exclusive flag is asked under the resolved name; a layer is probed with a private marker, never None or the caller default; writes go to the own layer (a multi-context always writes its first member); lookups are pure; MultiContext merges all members. Equivalence with a flattened model over histories is not decided.',
  note=TRUST + 'necessary clauses.',
  ref='6/C17'),
 'C18': dict(
  tech='effect analysis: per-call taint into shared objects / globals / class attributes over all evaluation-time code',
  text='Sufficient condition: no interpreter-wide setter is called; no per-call information is stored in a location that outlives the call (expression nodes, definitions, smart types, engine, shared contexts, module globals, class attributes, mutable defaults); stateful lazy helper classes are instantiated only inside payload bodies; no in-place write on argument data (shared with C09); lambda arguments are published into a child context made per invocation (shared with C04).',
  note=TRUST + 'CPython makes individual attribute/dict reads atomic.',
  ref='6/C18'),
 'C19': dict(
  tech='API-conformance lints: stdlib attribute resolution, re.Match API kinds, sibling-body symmetry',
  text='Necessary API-conformance clauses: every stdlib attribute referenced exists; match-object API is used with indices/names (not values) and iteration arity matches; sibling functions differ only in their documented direction/polarity; getattr on a library module with names from a constant table resolves for every name; findall is not applied to caller-supplied patterns; a regex replacement callback evaluates the lambda for every match; builtin str() is applied to a value of the evaluation only where null, true and false are excluded. Agreement with a reference model is not decided.',
  note=TRUST + 'the interpreter\'s stdlib modules are inspected for attribute existence only.',
  ref='6/C19'),
 'C20': dict(
  tech='abstract interpretation of date_time.py over an (instant, offset-tag, awareness) domain + unit-constant evaluation',
  text='Decides the instant/offset algebra of utc / timestamp / offset / datetime(timestamp, offset), naive-safety of bare-typed parameters, fixed-offset zones built from the total offset, the unit constants of the timespan properties, that the ordering overloads compare without a float projection of their operands, and that no datetime is rebuilt from the fields of another one (which drops fold). Float rounding is not decided.',
  note=TRUST + 'datetime/dateutil semantics of astimezone, replace, utcoffset, fromtimestamp.',
  ref='6/C20'),
}

# clauses added after the fifth round of seeded changes / refactorings
ROUND5 = {
 'C01': 'Also: library code on the parse path calls no state-changing method of the shared ply parser other than parse() (the list is derived from ply/yacc.py on every run), and no function handed out of the call that built it reads a one-shot iterator of that call.',
 'C04': 'Also: the function behind the list expression, applied abstractly to elements that are themselves iterators, returns exactly those elements.',
 'C05': 'Also: PythonType.check, evaluated abstractly over class membership x exact-class x validator answers, accepts iff instance and all validators; when the chosen overload raises an argument error while it runs, that error is the outcome and no other overload is run.',
 'C06': 'Also: the layer walk hands every layer the name, filter and use_convention flag it was given (each member of a merged layer spells the name in its own convention); a failing chosen overload is not replaced by another match of the layer.',
 'C07': 'Also: build_yaqlization_settings, evaluated abstractly on a remapping with both forms of target, blacklists every target name.',
 'C09': 'Also: the expression nodes, the dispatcher and the host interface write only into a child context they created on every path reaching the write; augmented assignments are applied only to names holding values made in the call or parameters declared scalar.',
 'C11': 'Also: applications of a lambda inside a filter / map the loop reads from count towards the once-per-element bound; the mapping handed to the sweep is keyed by the keyword the caller wrote (parameters whose python name differs from their alias are modelled).',
 'C12': 'Also: situations with hidden parameters after the visible ones.',
 'C14': 'Also: the iterator wrappers of memorize / limit_iterable advance their source by one next() per request; a lambda is applied at most once per element on every path through a loop over the source.',
 'C16': 'Also: the value of a single- or double-quoted literal is decode_escapes(text between the quotes) wherever it is set.',
 'C17': 'Also: register_function removes or replaces nothing registered before; the layer walk and the parent chains of multi- and linked contexts are decided by abstract evaluation on small chains (64 + 14 + 9 scenarios), including linked chains that share ancestors with the host chain.',
 'C18': 'Also: no function handed out of the call that built it reads a one-shot iterator of that call.',
 'C19': 'Also: _publish_match, evaluated abstractly on a match with an unset group, publishes value / start / end exactly as re.Match reports them; every function with a trim set hands it unchanged to str.strip / lstrip / rstrip.',
 'C20': 'Also: the value handed to fromtimestamp is the timestamp parameter itself, not something computed from it.',
}
for _k, _v in ROUND5.items():
    P[_k]['text'] += ' ' + _v

NA = {
}

NOT_BUILT = 'check not built yet in this session (static rule designed in DESIGN.md section 6); not claimed until its checker exists and is silent on the unchanged tree'


def main():
    built = []
    rules_dir = os.path.join(HERE, 'sa', 'rules')
    for pid in sorted(P):
        if os.path.exists(os.path.join(rules_dir, pid.lower() + '.py')):
            built.append(pid)
    checks = []
    for pid in built:
        d = P[pid]
        checks.append({
            'property_id': pid,
            'quick_cmd': './check %s --tier quick' % pid,
            'thorough_cmd': './check %s --tier thorough' % pid,
            'evidence_file': '/verif/evidence/%s.json' % pid,
            'replay_cmd_template': './check --explain {path}',
            'engine': 'sa',
            'level_claimed': {
                'category': d.get('cat', 'other'),
                'text': d['text'],
                'design_ref': 'DESIGN.md section ' + d['ref'],
            },
            'level_note': d['note'],
            'technique': 'static analysis: ' + d['tech'],
        })
    na = [{'property_id': k, 'reason': v} for k, v in sorted(NA.items())]
    for pid in sorted(P):
        if pid not in built:
            na.append({'property_id': pid, 'reason': NOT_BUILT})
    na.sort(key=lambda e: e['property_id'])
    manifest = {
        'version': 1,
        'setup_cmd': '/venv/bin/python -m compileall -q sa check tools >/dev/null 2>&1; /venv/bin/python -c "import ast, ply.yacc, ply.lex"',
        'hooks': {
            'guard': 'YAQL_VERIF',
            'enable': 'none needed: the checkers read /repo source; no instrumentation exists (YAQL_VERIF is reserved and unused)',
            'baseline_off_cmd': 'cd /repo && /venv/bin/python -m pytest -ra -q -p no:cacheprovider --timeout=900 --continue-on-collection-errors',
            'source_commits': [],
            'add_only': True,
        },
        'engines': [{
            'name': 'sa',
            'path': '/verif/sa',
            'serves_properties': built,
            'kind_free_text': 'repository-specific static analysers on the Python ast: source model, declared function registry, statement CFG/dataflow, spelling-independent path conditions, origin/effect analysis, LALR-table queries, regular-language engine, small abstract interpreters (shapes, tz, decision procedures with oracles)',
        }],
        'checks': checks,
        'not_applicable': na,
        'notes': 'Technique family: static analysis only. Every check decides from /repo working-tree source at run time; exit 0 held / 1 VIOLATION / 2 ANALYSIS-ERROR. Known findings: /verif/known_findings.json. Self-test of the checkers: /verif/selftest; corpora written by independent sub-agents: /verif/seeded (100 breaking changes, tools/seedcheck.py) and /verif/refactors (60 behaviour-preserving refactorings, tools/refcheck.py) -- none of these is a check.',
    }
    with open(os.path.join(HERE, 'MANIFEST.json'), 'w') as f:
        json.dump(manifest, f, indent=1)
        f.write('\n')
    print('MANIFEST: %d checks, %d not applicable' % (len(checks), len(na)))


if __name__ == '__main__':
    main()
