#!/venv/bin/python
"""Rewrites the table of Appendix G of DESIGN.md from `./check --all`."""
import os
import re
import subprocess

HERE = os.path.dirname(os.path.dirname(os.path.abspath(__file__)))


def main():
    out = subprocess.run([os.path.join(HERE, 'check'), '--all'],
                         capture_output=True, text=True, cwd=HERE).stdout
    rows = []
    prop = None
    for line in out.splitlines():
        m = re.match(r'== (C\d\d) ', line)
        if m:
            prop = m.group(1)
        m = re.match(r'\s+rule (R\S+)\s+obligations\s+(\d+)\s+discharged\s+'
                     r'\d+\s+(.*)$', line)
        if m and prop:
            rows.append('| %s | %s | %s | %s |' % (
                prop, m.group(1), m.group(2),
                m.group(3).replace('|', '/')))
    path = os.path.join(HERE, 'DESIGN.md')
    s = open(path).read()
    head = '| property | rule | obligations | statement (truncated) |\n' \
           '|---|---|---|---|\n'
    i = s.index(head, s.index('## Appendix G.'))
    j = i + len(head)
    k = j
    while k < len(s) and s[k:k + 2] == '| ':
        k = s.index('\n', k) + 1
    s = s[:j] + '\n'.join(sorted(rows)) + '\n' + s[k:]
    open(path, 'w').write(s)
    print('Appendix G: %d rules' % len(rows))


if __name__ == '__main__':
    main()
