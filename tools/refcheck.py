#!/venv/bin/python
"""Run every claimed check against the behaviour-preserving refactorings in
/verif/refactors/<id>/patch.diff (development tool).  Every check must stay
silent (exit 0) on every one of them; anything else is a false alarm of the
machinery and is listed.  Updates meta.json.

  tools/refcheck.py [--only RF01-1,...] [--checks C07,C09] [-j 16] [-v]
  tools/refcheck.py --import /tmp/out-RF01 RF01     (copy k.diff + README)
"""
import json
import multiprocessing
import os
import re
import shutil
import subprocess
import sys
import tempfile

VERIF = os.path.dirname(os.path.dirname(os.path.abspath(__file__)))
ROOT = os.path.join(VERIF, 'refactors')


def claimed():
    from importlib.machinery import SourceFileLoader
    return SourceFileLoader('chk', os.path.join(VERIF, 'check')
                            ).load_module().CLAIMED


def do_import(src, prefix):
    notes = {}
    rp = os.path.join(src, 'README.txt')
    if os.path.exists(rp):
        for line in open(rp):
            m = re.match(r'\s*(\d+)\s*[:.)-]\s*(.*)', line)
            if m:
                notes[m.group(1)] = m.group(2).strip()
    n = 0
    for f in sorted(os.listdir(src)):
        m = re.match(r'(\d+)\.diff$', f)
        if not m or os.path.getsize(os.path.join(src, f)) == 0:
            continue
        rid = '%s-%s' % (prefix, m.group(1))
        d = os.path.join(ROOT, rid)
        os.makedirs(d, exist_ok=True)
        shutil.copy(os.path.join(src, f), os.path.join(d, 'patch.diff'))
        meta = {'id': rid, 'what': notes.get(m.group(1), ''),
                'author': 'independent sub-agent asked for strictly '
                          'behaviour-preserving refactorings (saw the '
                          'property texts, nothing of /verif)',
                'tests': '366 passed (run by the author)'}
        json.dump(meta, open(os.path.join(d, 'meta.json'), 'w'), indent=1)
        n += 1
    print('imported %d patches as %s-*' % (n, prefix))


def one(args):
    rid, checks = args
    d = os.path.join(ROOT, rid)
    tmp = tempfile.mkdtemp(prefix='yaql-rc-')
    try:
        dst = os.path.join(tmp, 'repo')
        shutil.copytree('/repo', dst, ignore=shutil.ignore_patterns(
            '.git', '__pycache__', '*.pyc', 'releasenotes'))
        r = subprocess.run(['git', 'apply', '--whitespace=nowarn',
                            os.path.join(d, 'patch.diff')], cwd=dst,
                           capture_output=True, text=True)
        if r.returncode:
            return rid, None, 'patch does not apply: ' + r.stderr[:200]
        env = dict(os.environ, VERIF_REPO=dst, PYTHONDONTWRITEBYTECODE='1',
                   VERIF_EVIDENCE_DIR=os.path.join(tmp, 'ev'))
        fired = {}
        for pid in checks:
            r = subprocess.run([os.path.join(VERIF, 'check'), pid], env=env,
                               capture_output=True, text=True)
            if r.returncode:
                lines = r.stdout.splitlines()
                reps = []
                for i, line in enumerate(lines):
                    if line.startswith('VIOLATION') and i + 1 < len(lines):
                        reps.append(lines[i + 1].strip()[:400])
                    if line.startswith('ANALYSIS-ERROR'):
                        reps.append(line[:400])
                fired[pid] = {'exit': r.returncode, 'reports': reps[:6]}
        return rid, fired, ''
    finally:
        shutil.rmtree(tmp, ignore_errors=True)


def main(argv):
    if '--import' in argv:
        i = argv.index('--import')
        return do_import(argv[i + 1], argv[i + 2])
    checks = claimed()
    only = None
    if '--only' in argv:
        only = set(argv[argv.index('--only') + 1].split(','))
    if '--checks' in argv:
        checks = argv[argv.index('--checks') + 1].split(',')
    jobs = int(argv[argv.index('-j') + 1]) if '-j' in argv else 16
    ids = sorted(x for x in os.listdir(ROOT)
                 if os.path.isdir(os.path.join(ROOT, x)))
    if only:
        ids = [i for i in ids if i in only]
    with multiprocessing.Pool(jobs) as pool:
        res = pool.map(one, [(i, checks) for i in ids])
    noisy = 0
    for rid, fired, err in res:
        mp = os.path.join(ROOT, rid, 'meta.json')
        meta = json.load(open(mp))
        if fired is None:
            print('%-8s %s' % (rid, err))
            continue
        if fired:
            noisy += 1
        if '--checks' not in argv:
            meta['checks_not_silent'] = fired
            json.dump(meta, open(mp, 'w'), indent=1)
        if fired or '-v' in argv:
            print('%-8s %s  %s' % (rid, {k: v['exit'] for k, v in
                                         fired.items()} or 'silent',
                                   meta.get('what', '')[:90]))
            for k, v in fired.items():
                for r in v['reports'][:3]:
                    print('         %s: %s' % (k, r[:300]))
    print('%d refactorings: %d with a check that is not silent' % (
        len(res), noisy))
    return 1 if noisy else 0


if __name__ == '__main__':
    sys.exit(main(sys.argv[1:]))
