#!/venv/bin/python
"""Re-run the checks against every confirmed seeded change (development
tool).  For each /verif/seeded/<id>: scratch copy of /repo, `git apply
patch.diff`, run the claimed checks with VERIF_REPO on the copy, record which
fire.  Updates meta.json (checks_fired, detected_*) and prints a table.

  tools/seedcheck.py [--only C07-1,C09-3] [--checks C07,C09] [-j 16] [-v]
"""
import json
import multiprocessing
import os
import shutil
import subprocess
import sys
import tempfile

VERIF = os.path.dirname(os.path.dirname(os.path.abspath(__file__)))


def claimed():
    from importlib.machinery import SourceFileLoader
    return SourceFileLoader('chk', os.path.join(VERIF, 'check')
                            ).load_module().CLAIMED


def one(args):
    sid, checks = args
    d = os.path.join(VERIF, 'seeded', sid)
    tmp = tempfile.mkdtemp(prefix='yaql-sc-')
    try:
        dst = os.path.join(tmp, 'repo')
        shutil.copytree('/repo', dst, ignore=shutil.ignore_patterns(
            '.git', '__pycache__', '*.pyc', 'releasenotes'))
        r = subprocess.run(['git', 'apply', '--whitespace=nowarn',
                            os.path.join(d, 'patch.diff')], cwd=dst,
                           capture_output=True, text=True)
        if r.returncode:
            return sid, None, 'patch does not apply: ' + r.stderr[:200]
        env = dict(os.environ, VERIF_REPO=dst, PYTHONDONTWRITEBYTECODE='1',
                   VERIF_EVIDENCE_DIR=os.path.join(tmp, 'ev'))
        fired = {}
        for pid in checks:
            r = subprocess.run([os.path.join(VERIF, 'check'), pid], env=env,
                               capture_output=True, text=True)
            if r.returncode:
                lines = r.stdout.splitlines()
                reps = []
                for i, line in enumerate(lines):
                    if line.startswith('VIOLATION') and i + 1 < len(lines):
                        reps.append(lines[i + 1].strip()[:300])
                    if line.startswith('ANALYSIS-ERROR'):
                        reps.append(line[:300])
                fired[pid] = {'exit': r.returncode, 'reports': reps[:6]}
        return sid, fired, ''
    finally:
        shutil.rmtree(tmp, ignore_errors=True)


def main(argv):
    sys.path.insert(0, VERIF)
    checks = claimed()
    only = None
    if '--only' in argv:
        only = set(argv[argv.index('--only') + 1].split(','))
    if '--checks' in argv:
        checks = argv[argv.index('--checks') + 1].split(',')
    jobs = int(argv[argv.index('-j') + 1]) if '-j' in argv else 16
    ids = sorted(x for x in os.listdir(os.path.join(VERIF, 'seeded'))
                 if os.path.isdir(os.path.join(VERIF, 'seeded', x)))
    if only:
        ids = [i for i in ids if i in only]
    with multiprocessing.Pool(jobs) as pool:
        res = pool.map(one, [(i, checks) for i in ids])
    own = anyc = 0
    for sid, fired, err in res:
        mp = os.path.join(VERIF, 'seeded', sid, 'meta.json')
        meta = json.load(open(mp))
        if fired is None:
            print('%-7s %s' % (sid, err))
            continue
        prop = meta['property']
        d_own = prop in fired and fired[prop]['exit'] == 1
        d_any = any(v['exit'] == 1 for v in fired.values())
        own += d_own
        anyc += d_any
        if '--checks' not in argv:
            meta['checks_fired'] = fired
            meta['detected_by_own_property'] = d_own
            meta['detected_by_any_check'] = d_any
            json.dump(meta, open(mp, 'w'), indent=1)
        print('%-7s own=%-5s any=%-5s %s' % (
            sid, d_own, d_any, {k: v['exit'] for k, v in fired.items()}))
        if '-v' in argv:
            for k, v in fired.items():
                for r in v['reports'][:3]:
                    print('         %s: %s' % (k, r[:220]))
    print('%d seeds: %d detected by the check of their own property, %d by '
          'some check' % (len(res), own, anyc))


if __name__ == '__main__':
    main(sys.argv[1:])
