#!/venv/bin/python
"""Self-test of the checkers (development harness -- NOT a check, not in
MANIFEST).

Each variant is a textual edit of a scratch copy of /repo that breaks exactly
one rule instance (expect 'fire': the named check must exit 1 and name the
rule) or is a behaviour-preserving twin (expect 'silent': exit 0).  The
checkers *analyse* the copy (VERIF_REPO); with --tests the repository's own
test-suite is additionally run on each variant to record whether the existing
tests notice it.

  selftest/run.py [--tests] [--only C07[,C09]] [--id 07.2] [-j 16]
"""
import json
import multiprocessing
import os
import shutil
import subprocess
import sys
import tempfile
import time

HERE = os.path.dirname(os.path.abspath(__file__))
VERIF = os.path.dirname(HERE)
sys.path.insert(0, HERE)


def load_variants():
    import variants
    return variants.VARIANTS


def run_variant(args):
    v, with_tests = args
    t_start = time.time()
    tmp = tempfile.mkdtemp(prefix='yaql-st-%d-' % os.getpid())
    res = {'id': v['id'], 'prop': v['prop'], 'expect': v['expect'],
           'rule': v.get('rule', ''), 'note': v.get('note', '')}
    try:
        dst = os.path.join(tmp, 'repo')
        shutil.copytree('/repo', dst, ignore=shutil.ignore_patterns(
            '.git', '__pycache__', '*.pyc', 'releasenotes',
            '.stestr', '*.egg-info'))
        for edit in v['edits']:
            p = os.path.join(dst, edit[0])
            with open(p) as f:
                s = f.read()
            if edit[1] not in s:
                res['status'] = 'BROKEN-VARIANT (pattern not found in %s)' \
                    % edit[0]
                return res
            s = s.replace(edit[1], edit[2], 1)
            with open(p, 'w') as f:
                f.write(s)
        # the variant must still compile
        r = subprocess.run(['/venv/bin/python', '-m', 'compileall', '-q',
                            os.path.join(dst, 'yaql')], capture_output=True)
        if r.returncode != 0:
            res['status'] = 'BROKEN-VARIANT (does not compile)'
            return res
        env = dict(os.environ, VERIF_REPO=dst,
                   VERIF_EVIDENCE_DIR=os.path.join(tmp, 'ev'),
                   PYTHONDONTWRITEBYTECODE='1')
        outs = {}
        fired_rules = set()
        codes = {}
        for prop in v['prop'].split(','):
            t0 = time.time()
            r = subprocess.run([os.path.join(VERIF, 'check'), prop],
                               env=env, capture_output=True, text=True)
            codes[prop] = r.returncode
            lines = r.stdout.splitlines()
            for i, line in enumerate(lines):
                if line.startswith('VIOLATION') and i + 1 < len(lines):
                    fired_rules.add(lines[i + 1].split()[0])
                    outs.setdefault(prop, []).append(lines[i + 1][:260])
                if line.startswith('ANALYSIS-ERROR'):
                    outs.setdefault(prop, []).append(line[:260])
        res['codes'] = codes
        res['fired'] = sorted(fired_rules)
        res['detail'] = outs
        worst = max(codes.values())
        if v['expect'] == 'fire':
            want_rule = v.get('rule')
            ok = worst == 1 and (not want_rule or any(
                fr.startswith(want_rule) for fr in fired_rules))
        else:
            ok = worst == 0
        res['status'] = 'ok' if ok else 'MISMATCH'
        res['seconds'] = round(time.time() - t_start, 1)
        if with_tests:
            r = subprocess.run(
                ['/venv/bin/python', '-m', 'pytest', '-q', '-x', '-p',
                 'no:cacheprovider', '--timeout=300'], cwd=dst,
                capture_output=True, text=True, env=dict(
                    os.environ, PYTHONPATH=dst, PYTHONDONTWRITEBYTECODE='1'))
            tail = (r.stdout.strip().splitlines() or [''])[-1]
            res['tests'] = 'pass' if r.returncode == 0 else 'FAIL: ' + tail
        return res
    except Exception as e:
        res['status'] = 'HARNESS-ERROR %r' % (e,)
        return res
    finally:
        shutil.rmtree(tmp, ignore_errors=True)


def main(argv):
    with_tests = '--tests' in argv
    only = None
    ids = None
    jobs = 16
    if '--only' in argv:
        only = set(argv[argv.index('--only') + 1].split(','))
    if '--id' in argv:
        ids = set(argv[argv.index('--id') + 1].split(','))
    if '-j' in argv:
        jobs = int(argv[argv.index('-j') + 1])
    vs = load_variants()
    if only:
        vs = [v for v in vs if set(v['prop'].split(',')) & only]
    if ids:
        vs = [v for v in vs if v['id'] in ids]
    t0 = time.time()
    with multiprocessing.Pool(jobs) as pool:
        results = pool.map(run_variant, [(v, with_tests) for v in vs])
    bad = 0
    for r in results:
        mark = 'ok ' if r['status'] == 'ok' else '!! '
        if r['status'] != 'ok':
            bad += 1
        print('%s%-7s %-8s expect=%-6s codes=%s fired=%s %s%s' % (
            mark, r['id'], r['prop'], r['expect'], r.get('codes'),
            ','.join(r.get('fired', [])), r['status'] if r['status'] != 'ok'
            else '', ('  tests=' + r['tests']) if 'tests' in r else ''))
        if r['status'] != 'ok' or '-v' in argv:
            for prop, lines in (r.get('detail') or {}).items():
                for line in lines[:4]:
                    print('        ' + line)
    print('%d variants, %d not as expected, %.1fs' % (len(results), bad,
                                                      time.time() - t0))
    out = os.path.join(HERE, 'last_run.json')
    with open(out, 'w') as f:
        json.dump(results, f, indent=1)
    return 1 if bad else 0


if __name__ == '__main__':
    sys.exit(main(sys.argv[1:]))
