"""Variant catalogue for the checker self-test (see run.py).

Each variant: id, prop (check(s) to run), rule (prefix that must fire),
expect fire|silent, edits [(file, old, new)], note.
Edits are exact-text replacements applied to a scratch copy of the repaired
tree.  'silent' variants are behaviour-preserving twins.
"""

FAC = 'yaql/language/factory.py'
LEX = 'yaql/language/lexer.py'
PAR = 'yaql/language/parser.py'
RUN = 'yaql/language/runner.py'
SPE = 'yaql/language/specs.py'
UTI = 'yaql/language/utils.py'
YTY = 'yaql/language/yaqltypes.py'
CTX = 'yaql/language/contexts.py'
EXP = 'yaql/language/expressions.py'
QUE = 'yaql/standard_library/queries.py'
COL = 'yaql/standard_library/collections.py'
SYS = 'yaql/standard_library/system.py'
STR = 'yaql/standard_library/strings.py'
BOO = 'yaql/standard_library/boolean.py'
BRA = 'yaql/standard_library/branching.py'
YZD = 'yaql/standard_library/yaqlized.py'
MAT = 'yaql/standard_library/math.py'
COM = 'yaql/standard_library/common.py'
REG = 'yaql/standard_library/regex.py'
DAT = 'yaql/standard_library/date_time.py'
LEG = 'yaql/legacy.py'

VARIANTS = []


def V(id, prop, rule, expect, file, old, new, note=''):
    VARIANTS.append({'id': id, 'prop': prop, 'rule': rule, 'expect': expect,
                     'edits': [(file, old, new)], 'note': note})


def V2(id, prop, rule, expect, edits, note=''):
    VARIANTS.append({'id': id, 'prop': prop, 'rule': rule, 'expect': expect,
                     'edits': edits, 'note': note})


# ---------------------------------------------------------------- C01
V('01.1', 'C01', 'R01a', 'fire', FAC,
  'lexer=self.lexer.clone()', 'lexer=self.lexer',
  'shared lexer handed to ply again')
V('01.1t', 'C01', '', 'silent', FAC,
  '''        return expressions.Statement(
            self.parser.parse(expression, lexer=self.lexer.clone()), self)''',
  '''        lx = self.lexer.clone()
        return expressions.Statement(
            self.parser.parse(expression, lexer=lx), self)''',
  'twin: clone bound to a local first')
V2('01.2', 'C01', 'R01a', 'fire', [
    (FAC, '        self._lexer = ply_lexer\n',
     '        self._lexer = ply_lexer\n        self._own = ply_lexer.clone()\n'),
    (FAC, 'lexer=self.lexer.clone()', 'lexer=self._own')],
   'clone hoisted into __init__: still one cursor per engine')
V2('01.2c', 'C01', 'R01a', 'fire', [
    (FAC, 'import collections\n', 'import collections\nimport threading\n'),
    (FAC, '        self._lexer = ply_lexer\n',
     '        self._lexer = ply_lexer\n        self._lock = threading.Lock()\n'),
    (FAC, '''        return expressions.Statement(
            self.parser.parse(expression, lexer=self.lexer.clone()), self)''',
     '''        with self._lock:
            return expressions.Statement(
                self.parser.parse(expression, lexer=self.lexer), self)''')],
   'per-instance lock, but copy() builds another engine around the same '
   'lexer with its own lock (this used to be a "twin": seed C01-5 showed '
   'it is not)')
V2('01.2t', 'C01', '', 'silent', [
    (FAC, 'import collections\n', 'import collections\nimport threading\n'),
    (FAC, '    def __init__(self, ply_lexer, ply_parser, options, factory):\n',
     '    def __init__(self, ply_lexer, ply_parser, options, factory,\n'
     '                 lock=None):\n'),
    (FAC, '        self._lexer = ply_lexer\n',
     '        self._lexer = ply_lexer\n'
     '        self._lock = lock or threading.Lock()\n'),
    (FAC, '''        return expressions.Statement(
            self.parser.parse(expression, lexer=self.lexer.clone()), self)''',
     '''        with self._lock:
            return expressions.Statement(
                self.parser.parse(expression, lexer=self.lexer), self)'''),
    (FAC, '        return YaqlEngine(self._lexer, self._parser, opt, self._factory)',
     '        return YaqlEngine(self._lexer, self._parser, opt, self._factory,\n'
     '                          self._lock)')],
   'twin: shared lexer serialised by ONE lock that copies share')
V('01.3', 'C01', 'R01b', 'fire', LEX,
  '''        if t.value in self._operators_table:
            t.type = self._operators_table[t.value][2]''',
  '''        self._last = t.value
        if t.value in self._operators_table:
            t.type = self._operators_table[t.value][2]''',
  'token action remembers the previous token on the shared rules object')
V('01.3t', 'C01', '', 'silent', LEX,
  '''        if t.value in self._operators_table:
            t.type = self._operators_table[t.value][2]''',
  '''        last = t.value
        if last in self._operators_table:
            t.type = self._operators_table[t.value][2]''',
  'twin: local variable')
V('01.4', 'C01', 'R01b', 'fire', PAR,
  '''            p[0] = expressions.BinaryOperator(p[2], p[1], p[3], alias)''',
  '''            p[0] = expressions.BinaryOperator(p[2], p[1], p[3], alias)
            this._aliases['last'] = p[2]''',
  'grammar action caches on the shared parser object')
V2('01.5', 'C01', 'R01b', 'fire', [
    (FAC, '''        return expressions.Statement(
            self.parser.parse(''', '''        self._text = expression
        return expressions.Statement(
            self.parser.parse(''')],
   'engine stores the current text on self')
V2('01.5t', 'C01', '', 'silent', [
    (FAC, '        self._factory = factory\n',
     '        self._factory = factory\n        self._cache = {}\n'),
    (FAC, '''        return expressions.Statement(
            self.parser.parse(expression, lexer=self.lexer.clone()), self)''',
     '''        stmt = expressions.Statement(
            self.parser.parse(expression, lexer=self.lexer.clone()), self)
        self._cache[expression] = stmt
        return stmt''')],
   'twin: memo keyed by the whole text')
V('01.6', 'C01', 'R01c', 'fire', PAR,
  '''        else:
            raise exceptions.YaqlGrammarException(None, None, None)''',
  '''        else:
            return None''', 'p_error returns: ply enters recovery')

# ---------------------------------------------------------------- C02
V('02.1', 'C02', 'R02a', 'fire', PAR,
  "for oa in ('r', 'l'):", "for oa in ('l', 'r'):",
  'precedence rows of one level emitted in the wrong order')
V('02.1t', 'C02', '', 'silent', PAR,
  "for oa in ('r', 'l'):", "for assoc_key in ('r', 'l'):\n                oa = assoc_key",
  'twin: renamed loop variable')
V('02.2', 'C02', 'R02a', 'fire', PAR,
  '        precedence.reverse()\n', '', 'precedence list not reversed')
V('02.2t', 'C02', '', 'silent', PAR,
  '        precedence.reverse()\n', '        precedence = precedence[::-1]\n',
  'twin: reversed by slicing')
V('02.3', 'C02', 'R02a', 'fire', PAR,
  "(spec_prefix + ' %prec UNARY_{0}')", "(spec_prefix + '')",
  'unary production without %prec')
V('02.4', 'C02', 'R02a', 'fire', FAC,
  '''            if not record:
                precedence += 1
                continue''', '''            if not record:
                continue''', 'group counter not incremented')
V('02.5', 'C02', 'R02', 'fire', PAR,
  "la.extend(('LIST', 'INDEXER'))", "la.append('LIST')",
  'INDEXER left out of the precedence row')
V('02.6', 'C02', 'R02a', 'fire', LEG,
  "'or', True, '=>',", "'and', True, '=>',", 'legacy => in the wrong group')
V('02.7', 'C02', 'R02e', 'fire', PAR,
  'BinaryOperator(p[2], p[1], p[3], alias)',
  'BinaryOperator(p[2], p[3], p[1], alias)', 'operands swapped')
V('02.9', 'C02', 'R02a', 'fire', FAC,
  "            ('*', OperatorType.BINARY_LEFT_ASSOCIATIVE),\n            ('/', OperatorType.BINARY_LEFT_ASSOCIATIVE),",
  "            ('*', OperatorType.BINARY_LEFT_ASSOCIATIVE),\n            (),\n            ('/', OperatorType.BINARY_LEFT_ASSOCIATIVE),",
  'AST literal vs held list would agree; this checks nothing breaks: * and / split -> still conforms',
  ) if False else None

# ---------------------------------------------------------------- C03
V('03.1', 'C03', 'R03a', 'fire', LEX,
  '''        try:
            if '.' in t.value:
                t.value = float(t.value)
            else:
                t.value = int(t.value)
        except ValueError:
            raise exceptions.YaqlLexicalException(t.value, t.lexpos)''',
  '''        if '.' in t.value:
            t.value = float(t.value)
        else:
            t.value = int(t.value)''', 'handler removed again')
V('03.1b', 'C03', 'R03a', 'fire', LEX,
  '''        except ValueError:
            raise exceptions.YaqlLexicalException(t.value, t.lexpos)
        return t

    @staticmethod
    def t_FUNC''', '''        except OverflowError:
            raise exceptions.YaqlLexicalException(t.value, t.lexpos)
        return t

    @staticmethod
    def t_FUNC''', 'handler catches the wrong class')
V2('03.1t', 'C03', '', 'silent', [
    (LEX, '        \\\\b\\\\d+(\\\\.?\\\\d+)?\\\\b\n', '        \\\\b\\\\d{1,4000}\\\\b\n'),
    (LEX, '''        try:
            if '.' in t.value:
                t.value = float(t.value)
            else:
                t.value = int(t.value)
        except ValueError:
            raise exceptions.YaqlLexicalException(t.value, t.lexpos)''',
     '''        t.value = int(t.value)''')],
   'twin: regex bounded instead of a handler (integers only)')
V('03.2', 'C03', 'R03b', 'fire', LEX,
  '        raise exceptions.YaqlLexicalException(t.value[0], t.lexpos)',
  '        return None', 't_error returns')
V('03.3', 'C03', 'R03', 'fire', PAR,
  '            raise exceptions.YaqlGrammarException(None, None, None)',
  "            raise ValueError('unexpected end')",
  'p_error raises a foreign class at EOF')
V('03.4', 'C03', 'R03e', 'fire', LEX,
  'YaqlLexicalException(t.value[0], t.lexpos)',
  'YaqlLexicalException(t.value[0], t.lexpos + len(t.value))',
  'position computed past the token')
V('03.5', 'C03', 'R03a', 'fire', LEX,
  '''        val = t.value[:-1]
        t.value = val''', '''        val = t.value[:-1]
        t.value = val
        t.index = val.index('_')''', 'new partial operation in a token action')
V('03.6', 'C03', 'R03a', 'fire', PAR,
  '''        p[0] = expressions.Wrap(p[2])''',
  '''        p[0] = expressions.Wrap(p[4])''',
  'production index beyond the rule length')

# ---------------------------------------------------------------- C06
V('06.1', 'C06', 'R06c', 'fire', RUN,
  '''            delegate = winners[0]
            break''', '''            delegate = matches[0][0]
            break''', 'first match wins')
V('06.2', 'C06', 'R06c', 'fire', RUN,
  '''    no_kwargs = set(c.no_kwargs for level in candidates for c in level)
    if len(no_kwargs) > 1:
        raise_ambiguous()
    args, kwargs = translate_args(True in no_kwargs, args, kwargs)''',
  '''    args, kwargs = translate_args(
        next(iter(candidates[0])).no_kwargs, args, kwargs)''',
  'no_kwargs of whichever overload comes first')
V('06.3', 'C06', 'R06b', 'fire', RUN,
  '''            if lazy_params is None:
                lazy_params = lazy
            elif lazy_params != lazy:
                raise_ambiguous()''', '''            lazy_params = lazy''',
  'last candidate decides laziness')
V('06.4', 'C06', 'R06', 'fire', CTX,
  '''            set(filter(predicate, self._functions.get(name, set()))),''',
  '''            sorted(filter(predicate, self._functions.get(name, set())),
                   key=id),''', 'ordered by memory address')
V('06.5', 'C06', 'R06b', 'fire', RUN,
  '''        matches = []
        for c, mapping in level:
            try:
                d = c.get_delegate(receiver, engine, context, args, kwargs)
            except exceptions.ArgumentException:
                pass
            else:
                matches.append((d, mapping))''',
  '''        matches = []
        best = None
        for c, mapping in level:
            try:
                d = c.get_delegate(receiver, engine, context, args, kwargs)
            except exceptions.ArgumentException:
                pass
            else:
                if best is None or _is_specialization_of(mapping, best):
                    best = mapping
                    matches = [(d, mapping)]''', 'running winner restored')
V('06.1t', 'C06', '', 'silent', RUN,
  '''            winners = [
                d for d, mapping in matches
                if all(mapping is other or
                       _is_specialization_of(mapping, other)
                       for _, other in matches)]''',
  '''            winners = []
            for d, mapping in matches:
                if all(mapping is other or
                       _is_specialization_of(mapping, other)
                       for _, other in matches):
                    winners.append(d)''', 'twin: explicit loop with append')

# ---------------------------------------------------------------- C07
V('07.1', 'C07', 'R07a', 'fire', STR,
  '''def register(context):
    context.register_function(gt)''',
  '''@specs.parameter('string', yaqltypes.String())
def format_(string, *args, **kwargs):
    return string.format(*args, **kwargs)


def register(context):
    context.register_function(format_)
    context.register_function(gt)''', 'format() re-added (bug 2048114)')
V('07.1t', 'C07', '', 'silent', STR,
  '''def is_string(arg):''', '''def _label(a, b):
    return '{}:{}'.format(a, b)


def is_string(arg):''', 'twin: constant template')
V('07.2', 'C07', 'R07b', 'fire', YZD,
  '''    _validate_name(attr, settings)
    attr = _remap_name(attr, settings)''',
  '''    attr = _remap_name(attr, settings)''', 'validation dropped')
V('07.2b', 'C07', 'R07b', 'fire', YZD,
  '''    _validate_name(attr, settings)
    attr = _remap_name(attr, settings)''',
  '''    attr = _remap_name(attr, settings)
    _validate_name(attr, settings)''', 'remapped name validated')
V('07.2t', 'C07', '', 'silent', YZD,
  '''    _validate_name(attr, settings)
    attr = _remap_name(attr, settings)
    res = getattr(obj, attr)''',
  '''    _validate_name(attr, settings)
    target = _remap_name(attr, settings)
    res = getattr(obj, target)''', 'twin: renamed local')
V('07.3', 'C07', 'R07b', 'fire', YZD,
  '''    _validate_name(expr.name, settings)
    if not isinstance(mappings, str):''',
  '''    if not isinstance(mappings, str):''', 'method-call validation dropped')
V('07.3b', 'C07', 'R07b', 'fire', YZD,
  '''    res = obj[key]''', '''    res = obj[key]
    _validate_name(key, settings, KeyError)''' if False else '''    res = obj[key]''',
  '') if False else None
V('07.3c', 'C07', 'R07b', 'fire', YZD,
  '''    _validate_name(key, settings, KeyError)
    res = obj[key]''', '''    res = obj[key]
    _validate_name(key, settings, KeyError)''', 'validation after the access')
V('07.4', 'C07', 'R07c', 'fire', YZD,
  "@specs.parameter('obj', Yaqlized(can_index=True))",
  "@specs.parameter('obj', Yaqlized())", 'capability flag dropped')
V('07.4b', 'C07', 'R07c', 'fire', YZD,
  "@specs.parameter('receiver', Yaqlized(can_call_methods=True))",
  "@specs.parameter('receiver', Yaqlized(can_access_attributes=True))",
  'wrong capability')
V('07.5', 'C07', 'R07d', 'fire', YZD,
  "    if name.startswith('_'):", "    if name.startswith('__'):",
  'only dunder names rejected')
V('07.5t', 'C07', '', 'silent', YZD,
  "    if name.startswith('_'):", "    if name[:1] == '_':",
  'twin: equivalent test')
V('07.5b', 'C07', 'R07d', 'fire', YZD,
  '''    if name.startswith('_'):
        raise exception_cls('Cannot access ' + name)
    whitelist = settings['whitelist']
    if whitelist:
        for entry in whitelist:
            if _match_name_to_entry(name, entry):
                return''', '''    whitelist = settings['whitelist']
    if whitelist:
        for entry in whitelist:
            if _match_name_to_entry(name, entry):
                return
    if name.startswith('_'):
        raise exception_cls('Cannot access ' + name)
    if whitelist:
        for entry in whitelist:
            if _match_name_to_entry(name, entry):
                return''', 'whitelist consulted before the underscore rule')
V('07.6', 'C07', 'R07a', 'fire', COL,
  '''def dict_keyword_access(d, key):''' , '''def dict_keyword_access(d, key):
    if not isinstance(d, dict) and hasattr(d, key):
        return getattr(d, key)''', 'attribute fallback for dicts-or-objects')
V('07.7', 'C07', 'R07e', 'fire', YZD,
  '''            if settings is None:
                return False''', '''            if settings is None:
                settings = {'yaqlizeAttributes': True, 'yaqlizeMethods': True,
                            'yaqlizeIndexer': True}''',
  'objects without settings accepted')
V('07.8', 'C07', 'R07a', 'fire', QUE,
  '''def is_iterable(value):''', '''def to_dict_(obj):
    return dict(vars(obj))


def is_iterable(value):''', 'vars() in a new helper')
V('07.9', 'C07', 'R07g', 'fire', SYS,
  '''    return context(name, engine, receiver)(
        *args, **utils.filter_parameters_dict(kwargs))''',
  '''    return context(name, engine, receiver)(*args, **dict(kwargs))''',
  'call() no longer filters keyword names')
V('07.10', 'C07', 'R07g', 'fire', LEX,
  '        (?!__)\\\\b[^\\\\W\\\\d]\\\\w*\\\\b', '        \\\\b[^\\\\W\\\\d]\\\\w*\\\\b',
  'dunder keywords allowed')
V('07.11', 'C07', 'R07f', 'fire', QUE,
  '''def index_of(collection, item):''',
  '''def index_of(collection, item):
    if callable(item):
        return index_where(collection, item)''', 'hmm: passes data to a lazy position',
  ) if False else None
V('07.12', 'C07', 'R07f', 'fire', COL,
  '''def contains(collection, value):
''', '''def contains(collection, value):
    if callable(value):
        return any(value(t) for t in collection)
''', 'calls a data value')

# ---------------------------------------------------------------- C08
V('08.1', 'C08', 'R08a', 'fire', QUE,
  '''@specs.parameter('collection', yaqltypes.Iterable())
@specs.parameter('predicate', yaqltypes.Lambda())
@specs.method
def where(''', '''@specs.parameter('collection', utils.IterableType)
@specs.parameter('predicate', yaqltypes.Lambda())
@specs.method
def where(''', 'where() no longer limiting')
V('08.1t', 'C08', '', 'silent', QUE,
  '''@specs.parameter('collection', yaqltypes.Iterable())
@specs.parameter('predicate', yaqltypes.Lambda())
@specs.method
def where(''', '''@specs.parameter('collection', yaqltypes.Iterator())
@specs.parameter('predicate', yaqltypes.Lambda())
@specs.method
def where(''', 'twin (for C08): Iterator() is limiting too')
V('08.2', 'C08', 'R08a', 'fire', STR,
  '''def hex_(num):''', '''def count_chars(strings):
    return sum(len(s) for s in strings)


def hex_(num):''', 'unregistered helper: no obligation') if False else None
V('08.2b', 'C08', 'R08a', 'fire', STR,
  '''def join(sequence, separator, str_delegate):''',
  '''def join(sequence, separator, str_delegate, extra=None):
    if extra is not None:
        separator = separator.join(extra)''',
  'new undeclared parameter that is iterated')
V('08.3', 'C08', 'R08c', 'fire', UTI,
  '''        return set_type(rec(t, limit_func, engine, rec)
                        for t in limit_func(obj))''',
  '''        return set_type(rec(t, limit_func, engine, rec)
                        for t in obj)''', 'finaliser bypasses the limiter')
V('08.3t', 'C08', '', 'silent', UTI,
  '''        return set_type(rec(t, limit_func, engine, rec)
                        for t in limit_func(obj))''',
  '''        items = limit_func(obj)
        return set_type(rec(t, limit_func, engine, rec)
                        for t in items)''', 'twin: limiter result bound first')
V('08.4', 'C08', 'R08d', 'fire', RUN,
  '            utils.limit_memory_usage(engine, (1, result))\n', '',
  'result quota removed')
V('08.5', 'C08', 'R08f', 'fire', COL,
  '''    utils.limit_memory_usage(engine, (-right + 1, []), (right, left))
    return left * right''', '''    res = left * right
    utils.limit_memory_usage(engine, (1, res))
    return res''', 'checked after allocating')
V('08.6', 'C08', 'R08', 'fire', YTY,
  '        return None if res is None else utils.limit_iterable(res, engine)',
  '        return res', 'Iterable.convert no longer limits')
V('08.7', 'C08', 'R08b', 'fire', QUE,
  '        produced = utils.limit_iterable(producer(item), engine)',
  '        produced = producer(item)', 'revert of the generate_many fix')
V('08.8', 'C08', 'R08e', 'fire', YTY,
  '''    def convert(self, value, *args, **kwargs):
        if isinstance(value, datetime.datetime):''',
  '''    def convert(self, value, *args, **kwargs):
        if isinstance(value, str):
            return value
        if isinstance(value, datetime.datetime):''',
  'converter early return without the quota')
V('08.9', 'C08', 'R08g', 'fire', UTI,
  '''            if 0 <= max_count <= i:
                raise exceptions.CollectionTooLargeException(max_count)
            yield t''', '''            yield t''', 'limiter no longer raises')

# ---------------------------------------------------------------- C09
V('09.1', 'C09', 'R09a', 'fire', COL,
  '''    copy = list(collection)
    copy.insert(position, value)
    return copy''', '''    collection.insert(position, value)
    return collection''', 'in-place insert')
V('09.1t', 'C09', '', 'silent', COL,
  '''    copy = list(collection)
    copy.insert(position, value)
    return copy''', '''    copy = [*collection]
    copy.insert(position, value)
    return copy''', 'twin: other copy idiom')
V('09.2', 'C09', 'R09a', 'fire', COL,
  '''    d = dict(left)
    d.update(right)''', '''    d = left
    d.update(right)''', 'update through an alias')
V('09.3', 'C09', 'R09a', 'fire', QUE,
  '''    oi = OrderingIterable(collection, operator_lt, operator_gt)
    oi.append_field(selector, True)
    return oi''', '''    collection.sort()
    oi = OrderingIterable(collection, operator_lt, operator_gt)
    oi.append_field(selector, True)
    return oi''', 'sorts the argument')
V('09.3b', 'C09', 'R09a', 'fire', QUE,
  '        outer_self.sorted = sorted(outer_self.collection, key=Comparator)',
  '        outer_self.collection.sort(key=Comparator)\n        outer_self.sorted = outer_self.collection',
  'sorts the stored argument in place')
V('09.4', 'C09', 'R09b', 'fire', UTI,
  '''        seq_type = list if convert_tuples_to_lists(engine) else type(obj)
        return seq_type(''', '''        if not convert_tuples_to_lists(engine) and isinstance(obj, list):
            return obj
        seq_type = list if convert_tuples_to_lists(engine) else type(obj)
        return seq_type(''', 'finaliser returns the host list itself')
V('09.5', 'C09,C18', 'R', 'fire', EXP,
  '        return context(self.name, engine, receiver, context)(*self.args)',
  '        self._last_ctx = context\n        return context(self.name, engine, receiver, context)(*self.args)',
  'node remembers its last context')
V('09.6', 'C09', 'R09c', 'fire', SYS,
  '        __context__[key] = value', '        __context__.parent[key] = value',
  'let writes into the parent context')
V('09.7', 'C09', 'R09a', 'fire', COL,
  '''    copy = dict(d)
    for t in keys:
        copy.pop(t, None)
    return copy''', '''    copy = d if isinstance(d, dict) else dict(d)
    for t in keys:
        copy.pop(t, None)
    return copy''', 'copy skipped for plain dicts')
V('09.8', 'C09', 'R09c', 'fire', REG,
  '''    _publish_match(new_context, res)
    return selector(new_context)''', '''    _publish_match(context.parent, res)
    return selector(new_context)''', 'match published into the parent context')

# ---------------------------------------------------------------- C10
V('10.1', 'C10', 'R10a', 'fire', UTI,
  '''    elif isinstance(obj, SetType):
        set_type = list if convert_sets_to_lists(engine) else set
        return set_type(rec(t, limit_func, engine, rec)
                        for t in limit_func(obj))
    elif isinstance(obj, (tuple, list)):
        seq_type = list if convert_tuples_to_lists(engine) else type(obj)
        return seq_type(rec(t, limit_func, engine, rec)
                        for t in limit_func(obj))
    elif is_iterable(obj):
        return list(rec(t, limit_func, engine, rec) for t in limit_func(obj))''',
  '''    elif isinstance(obj, (tuple, list)):
        seq_type = list if convert_tuples_to_lists(engine) else type(obj)
        return seq_type(rec(t, limit_func, engine, rec)
                        for t in limit_func(obj))
    elif is_iterable(obj):
        return list(rec(t, limit_func, engine, rec) for t in limit_func(obj))
    elif isinstance(obj, SetType):
        set_type = list if convert_sets_to_lists(engine) else set
        return set_type(rec(t, limit_func, engine, rec)
                        for t in limit_func(obj))''',
  'generic-iterable branch shadows the set branch')
V('10.2', 'C10', 'R10a', 'fire', UTI,
  '    if isinstance(obj, collections.abc.Mapping):\n        result = {}',
  '    if isinstance(obj, dict):\n        result = {}',
  'frozen mappings no longer recognised')
V('10.3', 'C10', 'R10a', 'fire', UTI,
  "    return engine.options.get('yaql.convertSetsToLists', False)",
  "    return engine.options.get('yaql.convertTuplesToLists', False)",
  'set option reads the tuple option')
V('10.4', 'C10', 'R10c', 'fire', EXP,
  "        super().__init__('#finalize', expression)",
  "        super().__init__('#finalise', expression)", 'statement not finalised')
V('10.5', 'C10', 'R10b', 'fire', UTI,
  '    elif isinstance(obj, SetType):\n        return frozenset(',
  '    elif isinstance(obj, MutableSetType):\n        return frozenset(',
  'revert of the frozenset input fix')
V('10.6', 'C10', 'R10a', 'fire', UTI,
  '        seq_type = list if convert_tuples_to_lists(engine) else type(obj)',
  '        seq_type = list if convert_tuples_to_lists(engine) else tuple',
  'lists become tuples when tuple conversion is off')
V('10.1t', 'C10', '', 'silent', UTI,
  '    elif isinstance(obj, SetType):\n        set_type = list if convert_sets_to_lists(engine) else set',
  '    elif isinstance(obj, collections.abc.Set):\n        set_type = list if convert_sets_to_lists(engine) else set',
  'twin: same ABC spelled directly')

# ---------------------------------------------------------------- C11
V('11.1', 'C11', 'R11d', 'fire', BOO,
  '    return left() and right()', '    l, r = left(), right()\n    return l and r',
  'both operands evaluated')
V('11.1t', 'C11', '', 'silent', BOO,
  '    return left() and right()', '    x = left()\n    return x and right()',
  'twin')
V('11.2', 'C11', 'R11d', 'fire', BRA,
  '''    for mapping in args:
        if mapping.source():
            return mapping.destination()''',
  '''    pairs = [(m.source(), m.destination()) for m in args]
    for s, d in pairs:
        if s:
            return d''', 'switch evaluates every case')
V('11.3', 'C11', 'R11a', 'fire', RUN,
  '''    args = tuple(arg_evaluator(i, arg) for i, arg in enumerate(args))
    for key, value in kwargs.items():
        kwargs[key] = arg_evaluator(key, value)

    delegate = None
    for level in candidates2:
        matches = []
        for c, mapping in level:
            try:''', '''    raw_args = args
    for key, value in kwargs.items():
        kwargs[key] = arg_evaluator(key, value)

    delegate = None
    for level in candidates2:
        matches = []
        for c, mapping in level:
            args = tuple(arg_evaluator(i, arg)
                         for i, arg in enumerate(raw_args))
            try:''', 'arguments evaluated afresh for every candidate')
V('11.4', 'C11', 'R11b', 'fire', SPE,
  '''            if not positional_args[i].value_type.check(value, context, engine):
                return None''',
  '''            if hasattr(value, 'uses_receiver'):
                value = value(utils.NO_VALUE, context, engine)
            if not positional_args[i].value_type.check(value, context, engine):
                return None''', 'map_args evaluates arguments')
V('11.5', 'C11', 'R11d', 'fire', BRA,
  '''    for f in args:
        res = f()
        if res is not None:
            return res
    return None''', '''    vals = [f() for f in args]
    for res in vals:
        if res is not None:
            return res
    return None''', 'coalesce sweeps all arguments')
V('11.6', 'C11', 'R11c', 'fire', BOO,
  "@specs.parameter('right', yaqltypes.Lambda())\n@specs.name('#operator_or')",
  "@specs.name('#operator_or')", 'right operand of or no longer lazy')
V('11.7', 'C11', 'R11d', 'fire', SYS,
  '''    if receiver is None:
        return None
    return operator(receiver, expr)''', '''    res = operator(receiver, expr)
    if receiver is None:
        return None
    return res''', '?. applies the member expression to null')
V('11.8', 'C11', 'R11e', 'fire', QUE,
  '''                for level, t in enumerate(outer_self.order):
                    a = left.key(level)
                    b = right.key(level)''',
  '''                for level, t in enumerate(outer_self.order):
                    a = t[0](left.obj)
                    b = t[0](right.obj)''', 'selector per comparison again')
V('11.9', 'C11', 'R11e', 'fire', QUE,
  '''    for i, t in enumerate(collection):
        if predicate(t):
            return i
    return -1''', '''    for i, t in enumerate(collection):
        if predicate(t) and predicate(t) is not None:
            return i
    return -1''', 'predicate applied twice per element')

# ---------------------------------------------------------------- C13
V('13.1', 'C13', 'R13a', 'fire', QUE,
  '''    last_value = default
    for t in collection:
        last_value = t''', '''    n = len(list(collection))
    last_value = default
    for t in collection:
        last_value = t''', 'second pass over a one-shot iterator')
V('13.1t', 'C13', '', 'silent', QUE,
  '''    last_value = default
    for t in collection:
        last_value = t''', '''    collection = list(collection)
    n = len(collection)
    last_value = default
    for t in collection:
        last_value = t''', 'twin: materialised first')
V('13.2', 'C13', 'R13a', 'fire', SYS,
  '    sequence = iter(sequence)\n', '', 'revert of the unpack cursor')
V('13.3', 'C13', 'R13a', 'fire', QUE,
  '    collection2 = utils.memorize(collection2, engine)\n', '',
  'join re-scans an iterator')

# ---------------------------------------------------------------- C14
V('14.1', 'C14', 'R14a', 'fire', QUE,
  '    return filter(predicate, collection)',
  '    return list(filter(predicate, collection))', 'where materialises')
V('14.1t', 'C14', '', 'silent', QUE,
  '    return filter(predicate, collection)',
  '    return (t for t in collection if predicate(t))', 'twin: genexp')
V('14.2', 'C14', 'R14c', 'fire', QUE,
  '''    for t in collection:
        if predicate is None or predicate(t):
            return True
    return False''',
  '''    return any([predicate is None or predicate(t) for t in collection])''',
  'any over a list')
V('14.2t', 'C14', '', 'silent', QUE,
  '''    for t in collection:
        if predicate is None or predicate(t):
            return True
    return False''',
  '''    return any(predicate is None or predicate(t) for t in collection)''',
  'twin: any over a generator')
V('14.3', 'C14', 'R14d', 'fire', UTI,
  '''    def limiting_iterator():
        for i, t in enumerate(iterable):''', '''    items = list(iterable)

    def limiting_iterator():
        for i, t in enumerate(items):''', 'limiter materialises')
V('14.4', 'C14', 'R14c', 'fire', QUE,
  '''    try:
        return next(iter(collection))
    except StopIteration:''', '''    try:
        return tuple(collection)[0]
    except IndexError:''', 'first materialises')
V('14.5', 'C14', 'R14a', 'fire', QUE,
  '''    distinct_values = set()
    for t in collection:
        key = t if key_selector is None else key_selector(t)
        if key not in distinct_values:
            distinct_values.add(key)
            utils.limit_memory_usage(engine, (1, distinct_values))
            yield t''', '''    distinct_values = set()
    result = []
    for t in collection:
        key = t if key_selector is None else key_selector(t)
        if key not in distinct_values:
            distinct_values.add(key)
            utils.limit_memory_usage(engine, (1, distinct_values))
            result.append(t)
    return result''', 'distinct collects then returns')
V('14.6', 'C14', 'R14c', 'fire', QUE,
  '''    for i, t in enumerate(collection):
        if predicate(t):
            return i
    return -1''', '''    index = -1
    for i, t in enumerate(collection):
        if predicate(t) and index < 0:
            index = i
    return index''', 'indexWhere scans everything')
V('14.7', 'C14', 'R14a', 'fire', QUE,
  '    return itertools.islice(collection, count, None)',
  '    return itertools.islice(sorted(collection), count, None)', 'skip sorts')

# ---------------------------------------------------------------- C15
V('15.1', 'C15', 'R15a', 'fire', YTY,
  '''        super().__init__(
            (int, float), nullable,
            validators=[lambda t: not isinstance(t, bool)])''',
  '''        super().__init__(
            (int, float), nullable)''', 'Number admits bool')
V('15.1t', 'C15', '', 'silent', YTY,
  '''        super().__init__(
            (int, float), nullable,
            validators=[lambda t: not isinstance(t, bool)])''',
  '''        super().__init__(
            (int, float), nullable,
            validators=[lambda value: not isinstance(value, bool)])''',
  'twin: renamed lambda parameter')
V('15.2', 'C15', 'R15c', 'fire', COM,
  '''def null_gt_right(left, right):''', '''def null_gt_right(left, right):
    return True


def _unused_null_gt_right(left, right):''', 'null > x is true')
V('15.3', 'C15', 'R15', 'fire', COM,
  '    context.register_function(null_gte_right)\n', '', 'a null row missing')
V('15.4', 'C15', 'R15d', 'fire', MAT,
  '    return left > right', '    return left >= right', 'gt is gte')
V('15.4t', 'C15', '', 'silent', MAT,
  '    return left > right', '    return right < left', 'twin: mirrored')
V('15.5', 'C15', 'R15e', 'fire', MAT,
  '        return left // right', '        return int(left / right)',
  'integer division through floats')
V('15.6', 'C15', 'R15a', 'fire', COL,
  "@specs.parameter('right', yaqltypes.Integer())\n@specs.name('#operator_*')\ndef list_by_int",
  "@specs.parameter('right', int)\n@specs.name('#operator_*')\ndef list_by_int",
  'revert of the repetition fix')
V('15.7', 'C15', 'R15a', 'fire', STR,
  '''@specs.parameter('left', yaqltypes.String())
@specs.parameter('right', yaqltypes.String())
@specs.name('#operator_>')''', '''@specs.parameter('left', yaqltypes.String())
@specs.parameter('right')
@specs.name('#operator_>')''', 'string > anything')

# ---------------------------------------------------------------- C16
V('16.1', 'C16', 'R16a', 'fire', LEX,
  '    return ESCAPE_SEQUENCE_RE.sub(decode_match, s)',
  "    return codecs.decode(s, 'unicode-escape')", 'whole string decoded')
V('16.2', 'C16', 'R16b', 'fire', LEX,
  '''    | \\\\[\\\\'"abfnrtv]  # Single-character escapes''',
  '''    | \\\\[\\\\"abfnrtv]  # Single-character escapes''',
  'escaped single quote no longer decoded')
V('16.2t', 'C16', '', 'silent', LEX,
  '''    | \\\\[\\\\'"abfnrtv]  # Single-character escapes''',
  '''    | \\\\[abfnrtv\\\\'"]  # Single-character escapes''',
  'twin: class reordered')
V('16.3', 'C16', 'R16c', 'fire', LEX,
  """        '([^'\\\\\\\\]|\\\\\\\\.)*'""", """        '([^']|\\\\\\\\.)*'""",
  'backslash no longer excluded')
V('16.3t', 'C16', '', 'silent', LEX,
  """        '([^'\\\\\\\\]|\\\\\\\\.)*'""", """        '(?:\\\\\\\\.|[^'\\\\\\\\])*'""",
  'twin: equivalent regex')
V('16.4', 'C16', 'R16d', 'fire', LEX,
  '        (?!__)\\\\b[^\\\\W\\\\d]\\\\w*\\\\b', '        \\\\b[^\\\\W\\\\d]\\\\w*\\\\b',
  'look-ahead removed')
V('16.5', 'C16', 'R16d', 'fire', LEX,
  "        'NULL': None", "        'NULL': 0", 'null denotes 0')
V('16.6', 'C16', 'R16b', 'fire', LEX,
  '''    ( \\\\U........      # 8-digit hex escapes
    | \\\\u....          # 4-digit hex escapes''',
  '''    ( \\\\u....          # 4-digit hex escapes
    | \\\\U........      # 8-digit hex escapes''',
  'hmm: u before U: distinct first letters, no conflict') if False else None
V('16.7', 'C16', 'R16b', 'fire', LEX,
  '''    | \\\\[0-7]{1,3}     # Octal escapes''',
  '''    | \\\\[0-7]          # Octal escapes''', 'only 1-digit octal escapes')
V('16.8', 'C16', 'R16e', 'fire', LEX,
  '''            if '.' in t.value:
                t.value = float(t.value)
            else:
                t.value = int(t.value)''',
  '''            t.value = float(t.value)
            if t.value == int(t.value):
                t.value = int(t.value)''', 'integers through float')
V('16.9', 'C16', 'R16c', 'fire', LEX,
  "        t.value = t.value[1:-1].replace('\\\\`', '`')",
  "        t.value = decode_escapes(t.value[1:-1]).replace('\\\\`', '`')",
  'verbatim strings decode escapes')

# ---------------------------------------------------------------- C17
V('17.1', 'C17', 'R17b', 'fire', CTX,
  '''        if isinstance(item, str):
            return self._normalize_name(item) in self._data
        return False''', '''        if isinstance(item, str):
            if self._normalize_name(item) in self._data:
                return True
            return self.parent is not None and item in self.parent
        return False''', '__contains__ falls back to the parent')
V('17.2', 'C17', 'R17c', 'fire', CTX,
  '''        ctx = self.parent
        while ask_parent and ctx:
            result = ctx.get_data(name, utils.NO_VALUE, False)
            if result is utils.NO_VALUE:
                ctx = ctx.parent
            else:
                return result
        return default

    def __delitem__''', '''        ctx = self.parent
        while ctx:
            result = ctx.get_data(name, utils.NO_VALUE, False)
            if result is utils.NO_VALUE:
                ctx = ctx.parent
            else:
                return result
        return default

    def __delitem__''', 'Context.get_data ignores ask_parent')
V('17.3', 'C17', 'R17a', 'fire', CTX,
  '        self._data.pop(self._normalize_name(name))',
  '        self._data.pop(name)', 'deletion without normalisation')
V('17.3t', 'C17', '', 'silent', CTX,
  '        self._data.pop(self._normalize_name(name))',
  '        key = self._normalize_name(name)\n        self._data.pop(key)',
  'twin: key bound first')
V('17.4', 'C17', 'R17d', 'fire', CTX,
  '            p = None if is_exclusive else p.parent', '            p = p.parent',
  'exclusivity ignored')
V('17.4t', 'C17', '', 'silent', CTX,
  '            p = None if is_exclusive else p.parent',
  '            p = p.parent if not is_exclusive else None', 'twin')
V('17.5', 'C17', 'R17f', 'fire', CTX,
  '''        result = set()
        is_exclusive = False
        for context in self._context_list:
            funcs, exclusive = context.get_functions(
                name, predicate, use_convention)
            result.update(funcs)
            if exclusive:
                is_exclusive = True
        return result, is_exclusive''',
  '''        funcs, exclusive = self._context_list[0].get_functions(
            name, predicate, use_convention)
        return set(funcs), exclusive''', 'multi-context reads member 0 only')
V('17.6', 'C17', 'R17c', 'fire', CTX,
  '''            if not ask_parent or not self.parent:
                return default
            return self.parent.get_data(name, default=default, ask_parent=True)''',
  '''            if not self.parent:
                return default
            return self.parent.get_data(name, default=default, ask_parent=True)''',
  'LinkedContext.get_data ignores ask_parent')
V('17.7', 'C17', 'R17e', 'fire', CTX,
  '''    def __setitem__(self, name, value):
        self._data[self._normalize_name(name)] = value''',
  '''    def __setitem__(self, name, value):
        if self.parent is not None and name in self.parent:
            self.parent[name] = value
            return
        self._data[self._normalize_name(name)] = value''',
  'assignment updates an outer layer')

# ---------------------------------------------------------------- C18
V2('18.1', 'C18', 'R18a', 'fire', [
    (SPE, '''    def map_args(self, args, kwargs, context, engine):
        kwargs = dict(kwargs)''', '''    def map_args(self, args, kwargs, context, engine):
        self.meta['last'] = (args, kwargs)
        kwargs = dict(kwargs)''')], 'definition remembers its last call')
V('18.1t', 'C18', '', 'silent', UTI,
  '''    def __len__(self):
        return len(self._d)''', '''    def __len__(self):
        if self._hash is None:
            self._hash = None
        return len(self._d)''', 'twin: self-only memo')
V2('18.2', 'C18', 'R18b', 'fire', [
    (QUE, '''@specs.parameter('collection', yaqltypes.Iterable())
@specs.parameter('key_selector', yaqltypes.Lambda())
@specs.extension_method
def distinct(engine, collection, key_selector=None):''',
     '''_SEEN = set()


@specs.parameter('collection', yaqltypes.Iterable())
@specs.parameter('key_selector', yaqltypes.Lambda())
@specs.extension_method
def distinct(engine, collection, key_selector=None):'''),
    (QUE, '    distinct_values = set()\n    for t in collection:\n        key = t if key_selector',
     '    distinct_values = _SEEN\n    distinct_values.clear()\n    for t in collection:\n        key = t if key_selector')],
   'module-level scratch set shared by all evaluations')
V2('18.3', 'C18', 'R18', 'fire', [
    (QUE, '''def group_by_function(allow_aggregator_fallback):''',
     '''_AGG = GroupAggregator()


def group_by_function(allow_aggregator_fallback):'''),
    (QUE, '        new_aggregator = GroupAggregator(aggregator, allow_aggregator_fallback)',
     '        new_aggregator = _AGG\n        new_aggregator.aggregator = aggregator\n        new_aggregator._failure_info = None')],
   'aggregator hoisted to a module singleton')
V('18.4', 'C18', 'R18a', 'fire', YTY,
  '''        if not self.check(value, context, engine, *args, **kwargs):
            raise exceptions.ArgumentValueException()
        utils.limit_memory_usage(engine, (1, value))''',
  '''        if not self.check(value, context, engine, *args, **kwargs):
            raise exceptions.ArgumentValueException()
        self.last_value = value
        utils.limit_memory_usage(engine, (1, value))''',
  'smart type remembers the last value (SmartType has __slots__: only '
  'subclasses without slots would accept it at run time)')
V('18.5', 'C18', 'R18a', 'fire', RUN,
  '            new_level.append((c, mapping))',
  "            c.meta['mapping'] = mapping\n            new_level.append((c, mapping))",
  'mapping cached on the shared definition')
V('18.6', 'C18', 'R18b', 'fire', STR,
  '''def concat(*args):''', '''def concat(*args, _buf=[]):
    _buf.append(len(args))''', 'mutable default argument')

# ---------------------------------------------------------------- C04
V('04.1', 'C04', 'R04b', 'fire', YTY,
  '''            else:
                new_receiver, new_context = \\
                    utils.NO_VALUE, context.create_child_context()

            return self._call(''', '''            else:
                new_receiver, new_context = \\
                    utils.NO_VALUE, context

            return self._call(''', 'lambda evaluates in the defining context itself')
V('04.2', 'C04', 'R04a', 'fire', SPE,
  '''        def func():
            new_context = context.create_child_context()
            result = self.payload(''', '''        new_context = context.create_child_context()

        def func():
            result = self.payload(''', 'child created once per delegate, not per call')
V('04.2b', 'C04', 'R04a', 'fire', SPE,
  '''            new_context = context.create_child_context()
            result = self.payload(''', '''            new_context = context
            result = self.payload(''', 'payload runs in the caller context')
V('04.2t', 'C04', '', 'silent', SPE,
  '''            new_context = context.create_child_context()
            result = self.payload(
                *tuple(map(lambda t: t(new_context),
                           positional_args)),
                **dict(map(lambda t: (t[0], t[1](new_context)),
                           keyword_args.items()))
            )''', '''            call_scope = context.create_child_context()
            result = self.payload(
                *tuple(map(lambda t: t(call_scope),
                           positional_args)),
                **dict(map(lambda t: (t[0], t[1](call_scope)),
                           keyword_args.items()))
            )''', 'twin: renamed')
V('04.3', 'C04,C09', 'R', 'fire', SYS,
  '        __context__[str(i)] = value', '        __context__.parent[str(i)] = value',
  'let writes into the parent')
V('04.4', 'C04', 'R04c', 'fire', YTY,
  '''        for i, param in enumerate(args):
            context['$' + str(i + 1)] = param''', '''        for i, param in enumerate(args):
            context.parent['$' + str(i + 1)] = param''', 'arguments published one scope up')
V('04.5', 'C04', 'R04b', 'fire', YTY,
  '''            elif self.method and not self.with_context:
                new_receiver, new_context = \\
                    args[0], context.create_child_context()''',
  '''            elif self.method and not self.with_context:
                new_receiver, new_context = \\
                    args[0], engine.last_context''', 'method lambda uses some other context')
V('04.6', 'C04', 'R04d', 'fire', SYS,
  '''    context.register_function(wrapper)
    return context''', '''    context.parent.register_function(wrapper)
    return context''', 'def() registers into the outer scope')

# ---------------------------------------------------------------- C12
V('12.1', 'C12', 'R12a', 'fire', QUE,
  '''def index_of(collection, item):''', '''def index_of(collection, item, in_=None):''',
  'keyword name `in` is a word operator')
V('12.1t', 'C12', '', 'silent', QUE,
  '''def index_of(collection, item):''', '''def index_of(collection, item, input_=None):''',
  'twin')
V('12.2', 'C12', 'R12', 'fire', SPE,
  '''def extension_method(func):
    fd = _get_function_definition(func)
    fd.is_method = True
    fd.is_function = True''', '''def extension_method(func):
    fd = _get_function_definition(func)
    fd.is_method = True
    fd.is_function = False''', 'extension methods no longer callable as functions')
V('12.3', 'C12', 'R12c', 'fire', RUN,
  '        predicate = lambda fd, ctx: fd.is_method and function_filter(fd, ctx)',
  '        predicate = lambda fd, ctx: fd.is_function and function_filter(fd, ctx)',
  'method calls select by is_function')
V('12.4', 'C12', 'R12b', 'fire', 'yaql/language/conventions.py',
  '''    def convert_parameter_name(self, name):
        return self._to_camel_case(name)''', '''    def convert_parameter_name(self, name):
        return name''', 'parameter names no longer camel-cased')
V('12.5', 'C12', 'R12b', 'fire', SPE,
  '''    if function is not None:
        fd.is_function = function
    if method is not None:
        fd.is_method = method''', '''    if function is not None:
        fd.is_function = function''', 'method= override dropped at registration')

# ---------------------------------------------------------------- C19
V('19.1', 'C19', 'R19a', 'fire', STR,
  'string_module.ascii_letters', 'string_module.letters', 'revert')
V('19.2', 'C19', 'R19b', 'fire', REG,
  '''    for key, value in match.groupdict().items():
        rec = {
            'value': value,
            'start': match.start(key),
            'end': match.end(key)
        }''', '''    for key, value in match.groupdict().items():
        rec = {
            'value': value,
            'start': match.start(value),
            'end': match.end(value)
        }''', 'start/end by value')
V('19.2b', 'C19', 'R19b', 'fire', REG,
  '    for key, value in match.groupdict().items():',
  '    for key, value in match.groupdict().values():', 'arity')
V('19.3', 'C19', 'R19c', 'fire', STR,
  '''def last_index_of_(string, sub, start, length):
    """''', '''def last_index_of_(string, sub, start, length):
    """ ''', 'no-op docstring edit (control)') if False else None
V('19.3b', 'C19', 'R19c', 'fire', STR,
  '''    if start < 0:
        start += len(string)
    if length < 0:
        length = len(string) - start
    return string.rfind(sub, start, start + length)''',
  '''    if length < 0:
        length = len(string) - start
    return string.rfind(sub, start, start + length)''',
  'lastIndexOf no longer adjusts a negative start')
V('19.4', 'C19', 'R19c', 'fire', REG,
  '''def not_matches_operator_regex(string, regexp):''',
  '''def not_matches_operator_regex(string, regexp):
    if not string:
        return False''', 'polarity siblings drift')
V('19.5', 'C19', 'R19a', 'fire', REG,
  '        flags |= re.IGNORECASE', '        flags |= re.IGNORE_CASE', 'stdlib name typo')

# ---------------------------------------------------------------- C20
V('20.1', 'C20', 'R20a', 'fire', DAT,
  '    return dt.astimezone(UTCTZ)', '    return dt - dt.utcoffset()', 'revert')
V('20.1t', 'C20', '', 'silent', DAT,
  '    return dt.astimezone(UTCTZ)',
  '    return (dt - dt.utcoffset()).replace(tzinfo=UTCTZ)', 'twin: same instant, utc tag')
V('20.1b', 'C20', 'R20a', 'fire', DAT,
  '    return dt.astimezone(UTCTZ)', '    return dt.replace(tzinfo=UTCTZ)',
  'relabels the wall clock as UTC')
V('20.2', 'C20', 'R20b', 'fire', DAT,
  '@specs.yaql_property(yaqltypes.DateTime())\ndef timestamp(dt):',
  '@specs.yaql_property(DATETIME_TYPE)\ndef timestamp(dt):', 'revert')
V('20.3', 'C20', 'R20c', 'fire', DAT,
  '    return microseconds(timespan) / 3600000000.0',
  '    return microseconds(timespan) / 360000000.0', 'hours off by ten')
V('20.3t', 'C20', '', 'silent', DAT,
  '    return microseconds(timespan) / 3600000000.0',
  '    return microseconds(timespan) / 3.6e9', 'twin')
V('20.4', 'C20', 'R20b', 'fire', DAT,
  '''@specs.name('#operator_<')
@specs.parameter('dt1', yaqltypes.DateTime())''', '''@specs.name('#operator_<')
@specs.parameter('dt1', DATETIME_TYPE)''', 'comparison operand with the bare type')
V('20.5', 'C20', 'R20a', 'fire', DAT,
  '    return DATETIME_TYPE.fromtimestamp(timestamp, tz=zone)',
  '    return DATETIME_TYPE.fromtimestamp(timestamp).replace(tzinfo=zone)',
  'timestamp interpreted in local time then relabelled')
V('20.6', 'C20', 'R20a', 'fire', DAT,
  '    return (utc(dt) - DATETIME_TYPE(1970, 1, 1, tzinfo=UTCTZ)).total_seconds()',
  '    return (dt.replace(tzinfo=UTCTZ) - DATETIME_TYPE(1970, 1, 1, tzinfo=UTCTZ)).total_seconds()',
  'timestamp of the wall clock')
V('20.7', 'C20', 'R20c', 'fire', DAT,
  '    return (86400000000 * timespan.days +',
  '    return (8640000000 * timespan.days +', 'day length off by ten')



# ---------------------------------------------------------------- C05
V('05.1', 'C05', 'R05a', 'fire', RUN,
  '''    def raise_not_found():
        if receiver is utils.NO_VALUE:''',
  '''    def raise_not_found():
        if receiver is not utils.NO_VALUE:''',
  'no-matching errors of the wrong kind')
V('05.1t', 'C05', '', 'silent', RUN,
  '''        if receiver is utils.NO_VALUE:
            raise exceptions.NoMatchingFunctionException(name)
        else:
            raise exceptions.NoMatchingMethodException(name, receiver)''',
  '''        if receiver is not utils.NO_VALUE:
            raise exceptions.NoMatchingMethodException(name, receiver)
        raise exceptions.NoMatchingFunctionException(name)''',
  'twin: mirrored test -- the function raise is no longer inside the If')
V('05.2', 'C05', 'R05b', 'fire', RUN,
  '    if not all_overloads:\n        if receiver is utils.NO_VALUE:',
  '    if all_overloads is None:\n        if receiver is utils.NO_VALUE:',
  'unknown-function verdict no longer tied to an empty collection')
V('05.3', 'C05', 'R05c', 'fire', SPE,
  '            if not param.value_type.check(val, context, engine):\n                raise exceptions.ArgumentException(param.name)',
  '            if val is not None and not param.value_type.check(\n                    val, context, engine):\n                raise exceptions.ArgumentException(param.name)',
  'null skips the second-phase type check')
V('05.3t', 'C05', '', 'silent', SPE,
  '            if not param.value_type.check(val, context, engine):\n                raise exceptions.ArgumentException(param.name)',
  '            fits = param.value_type.check(val, context, engine)\n            if not fits:\n                raise exceptions.ArgumentException(param.name)',
  'twin: outcome bound to a local')
V('05.4', 'C05', 'R05c', 'fire', SPE,
  '                    keyword_args[key] = checked(value, argdef)',
  '                    keyword_args[key] = (lambda c, v=value: v)',
  '**kwargs values reach the payload unchecked')
V('05.5', 'C05', 'R05c', 'fire', SPE,
  '''            if not keyword_args[kwd].value_type.check(
                    kwargs[kwd], context, engine):
                return None''',
  '''            if kwargs[kwd] is not None and not keyword_args[
                    kwd].value_type.check(kwargs[kwd], context, engine):
                return None''',
  'map_args: keyword null skips the check')
V('05.6', 'C05', 'R05d', 'fire', RUN,
  '            delegate = winners[0]\n            break\n',
  '            delegate = winners[0]\n',
  'outer layers override the nearest match')
V('05.7', 'C05', 'R05e', 'fire', RUN,
  '            except exceptions.ArgumentException:\n                pass',
  '            except exceptions.YaqlException:\n                pass',
  'any yaql error during delegate construction means "does not match"')
V('05.8', 'C05', 'R05f', 'fire', RUN,
  '    for level in candidates:\n        new_level = []\n',
  '    for level in candidates:\n        new_level = []\n        lazy_params = None\n',
  'laziness validated per layer only')
V('05.9', 'C05,C17', 'R17d', 'fire', CTX,
  '            p = None if is_exclusive else p.parent',
  '            p = p.parent',
  'exclusive layers ignored')

# ---------------------------------------------------------------- new rules
V('11.10', 'C11,C12', 'R11f', 'fire', RUN,
  '                    lazy.add(key)', '                    lazy.add(value.name)',
  'lazy set keyed by python parameter name')
V('13.4', 'C13', 'R13b', 'fire', UTI,
  '        def __iter__(self):\n            return RememberingIterator()',
  '        def __iter__(self):\n            self.index = 0\n            return self',
  'memorized collection rewinds one shared cursor')
V('14.8', 'C14', 'R14e', 'fire', UTI,
  '        def __iter__(self):\n            return RememberingIterator()\n',
  '        def __iter__(self):\n            return RememberingIterator()\n\n        def __len__(self):\n            return len(list(RememberingIterator()))\n',
  'lazy wrapper sized by reading the source')
V('14.9', 'C14', 'R14a', 'fire', QUE,
  '''    for self_item in collection1:
        for other_item in collection2:
            if predicate(self_item, other_item):
                yield selector(self_item, other_item)''',
  '''    for self_item, other_item in itertools.product(
            collection1, collection2):
        if predicate(self_item, other_item):
            yield selector(self_item, other_item)''',
  'itertools.product pools both inputs first')
V('15.8', 'C15', 'R15f', 'fire', STR,
  '    return left < right\n', '    return left.lower() < right.lower()\n',
  'case-insensitive < only')
V('15.8t', 'C15', '', 'silent', MAT,
  '    return left < right\n', '    res = left < right\n    return res\n',
  'twin: result bound to a local')
V('15.9', 'C15', 'R15f', 'fire', COM,
  '    return left != right\n', '    return not left == right and left is not None\n',
  '!= no longer the complement of =')
V('12.6', 'C12', 'R12d', 'fire', PAR,
  '''                | arglist ',' arglist
                | incomplete_arglist ',' arglist''',
  '''                | arglist ',' arglist''',
  'two adjacent empty slots no longer derivable')
V('19.6', 'C19', 'R19a', 'fire', STR,
  '    if letters:\n        string += string_module.ascii_letters',
  "    if letters:\n        string += getattr(string_module, 'letters', '')",
  'python 2 name looked up with a silent default')
V('03.7t', 'C03', '', 'silent', PAR,
  '''        if p:
            raise exceptions.YaqlGrammarException(
                p.lexer.lexdata, p.value, p.lexpos)''',
  '''        if p:
            tok = p
            raise exceptions.YaqlGrammarException(
                tok.lexer.lexdata, tok.value, tok.lexpos)''',
  'twin: token aliased')
V('05.2t', 'C05', '', 'silent', RUN,
  '    if not all_overloads:\n        if receiver is utils.NO_VALUE:',
  '    if len(all_overloads) == 0:\n        if receiver is utils.NO_VALUE:',
  'twin: emptiness spelled with len()')
V('05.6t', 'C05', '', 'silent', RUN,
  '            delegate = winners[0]\n            break\n',
  '            return winners[0]\n',
  'twin: returns the winner from inside the layer loop')
V('05.7t', 'C05', '', 'silent', RUN,
  '            except exceptions.ArgumentException:\n                pass',
  '            except (exceptions.ArgumentException,):\n                continue',
  'twin: tuple handler, continue')


VARIANTS = [v for v in VARIANTS if v is not None]

# ------------------------------------------------ rules added after the seeds
V('08.10', 'C08', 'R08h', 'fire', UTI,
  '''    for t in args:
        total += t[0] * sys.getsizeof(t[1], 0)''',
  '''    for t in args:
        if isinstance(t[1], (int, float)):
            continue
        total += t[0] * sys.getsizeof(t[1], 0)''',
  'numbers are never charged against the quota')
V('08.10t', 'C08', '', 'silent', UTI,
  '''    for t in args:
        total += t[0] * sys.getsizeof(t[1], 0)
        if total > quota:''',
  '''    for count, sample in args:
        size = sys.getsizeof(sample, 0)
        total += count * size
        if total > quota:''',
  'twin: unpacked sample, size bound to a local')
V('11.11t', 'C11', '', 'silent', YTY,
  '''            return self._call(value, new_receiver, new_context,
                              engine, args, kwargs)''',
  '''            result = self._call(value, new_receiver, new_context,
                                engine, args, kwargs)
            return result''',
  'twin: result bound to a local')
V('11.12', 'C11', 'R11a', 'fire', RUN,
  '''    args = tuple(arg_evaluator(i, arg) for i, arg in enumerate(args))
    for key, value in kwargs.items():
        kwargs[key] = arg_evaluator(key, value)''',
  '''    for key, value in kwargs.items():
        kwargs[key] = arg_evaluator(key, value)
    args = tuple(arg_evaluator(i, arg) for i, arg in enumerate(args))''',
  'keyword arguments evaluated before positional ones')
V('15.10t', 'C15', '', 'silent', YTY,
  '''            (int, float), nullable,
            validators=[lambda t: not isinstance(t, bool)])
''',
  '''            (int, float), nullable,
            validators=[lambda t: not isinstance(t, bool)])

    def check(self, value, context, engine, *args, **kwargs):
        return super().check(value, context, engine, *args, **kwargs)
''',
  'twin: a check() override that only delegates')
V('15.10', 'C15', 'R15g', 'fire', YTY,
  '''            (int, float), nullable,
            validators=[lambda t: not isinstance(t, bool)])
''',
  '''            (int, float), nullable,
            validators=[lambda t: not isinstance(t, bool)])

    def check(self, value, context, engine, *args, **kwargs):
        return isinstance(value, (int, float)) or super().check(
            value, context, engine, *args, **kwargs)
''',
  'fast path bypasses the not-a-bool validator')
V('20.8t', 'C20', '', 'silent', DAT,
  '    return tz.tzoffset(None, seconds(offset))',
  '    return tz.tzoffset(None, offset.total_seconds())',
  'twin: total_seconds() instead of the module helper')
V('20.8', 'C20', 'R20d', 'fire', DAT,
  '    return tz.tzoffset(None, seconds(offset))',
  '    return tz.tzoffset(None, offset.seconds)',
  'timedelta field instead of the total')
V('17.8t', 'C17', '', 'silent', CTX,
  '''    def __setitem__(self, name, value):
        self._context_list[0][name] = value''',
  '''    def __setitem__(self, name, value):
        first = self._context_list[0]
        first[name] = value''',
  'twin: first member bound to a local')
V('17.8', 'C17', 'R17e', 'fire', CTX,
  '''    def __setitem__(self, name, value):
        self._context_list[0][name] = value''',
  '''    def __setitem__(self, name, value):
        self._context_list[-1][name] = value''',
  'stores into the last member')
V('06.6t', 'C06,C05', '', 'silent', RUN,
  '''            elif lazy_params != lazy:
                raise_ambiguous()''',
  '''            elif not (lazy_params == lazy):
                raise_ambiguous()''',
  'twin: negated equality')
V('06.6', 'C06,C05', 'R0', 'fire', RUN,
  '''            elif lazy_params != lazy:
                raise_ambiguous()''',
  '''            elif lazy and lazy_params != lazy:
                raise_ambiguous()''',
  'agreement only checked for candidates that have lazy parameters')
V('06.7', 'C06', 'R06f', 'fire', CTX,
  '''        self._exclusive_funcs = set()''',
  '''        self._exclusive_funcs = set()
        self._latest = {}''',
  'placeholder (edited below)') if False else None
V2('06.7', 'C06', 'R06f', 'fire', [
    (CTX, '        self._exclusive_funcs = set()\n',
     '        self._exclusive_funcs = set()\n        self._latest = {}\n'),
    (CTX, '        self._functions.setdefault(spec.name, set()).add(spec)\n',
     '        self._functions.setdefault(spec.name, set()).add(spec)\n'
     '        self._latest[spec.name] = spec\n')],
   'a last-writer-wins table keyed by name')
V('13.5', 'C13', 'R13a', 'fire', COL,
  '''    copy = dict(d)
    for t in keys:
        copy.pop(t, None)
    return copy''',
  '''    return {k: v for k, v in d.items() if k not in keys}''',
  'membership in a one-shot iterator per element of a comprehension')
V('19.7', 'C19', 'R19b', 'fire', REG,
  '''    for res in regexp.finditer(string):
        new_context = context.create_child_context()
        if selector is None:
            yield res.group()''',
  '''    if selector is None:
        yield from regexp.findall(string)
        return
    for res in regexp.finditer(string):
        new_context = context.create_child_context()
        if selector is None:
            yield res.group()''',
  'findall yields groups for patterns with groups')
V('12.7', 'C12,C04', 'R12e', 'fire', SYS,
  '''@specs.inject('__context__', yaqltypes.Context())
def let(__context__, *args, **kwargs):''',
  '''@specs.inject('ctx', yaqltypes.Context())
def let(ctx, *args, **kwargs):
    __context__ = ctx''',
  'hidden parameter of a **kwargs function with a writable name')
V('10.7', 'C10', 'R10e', 'fire', UTI,
  '''def convert_input_data(obj, rec=None):
    if rec is None:
        rec = convert_input_data''',
  '''_SEEN = {}


def convert_input_data(obj, rec=None):
    if id(obj) in _SEEN:
        return _SEEN[id(obj)]
    if rec is None:
        rec = convert_input_data''',
  'id()-keyed memo of converted values')
V('13.6', 'C13', 'R13a', 'fire', COL,
  '    yielded = False\n    for i, t in enumerate(collection):\n        if (count >= 0 and position <= i < position + count\n                or count < 0 and i >= position):\n            if not yielded:\n                yielded = True\n                yield value\n        else:\n            yield t\n', '    indexed = enumerate(collection)\n    for i, t in indexed:\n        if i < position:\n            yield t\n    yield value\n    for i, t in indexed:\n        if count >= 0 and i >= position + count:\n            yield t\n',
  'second loop over an enumerate() cursor the first loop ran to its end')
V('13.6t', 'C13', '', 'silent', COL,
  '    yielded = False\n    for i, t in enumerate(collection):\n        if (count >= 0 and position <= i < position + count\n                or count < 0 and i >= position):\n            if not yielded:\n                yielded = True\n                yield value\n        else:\n            yield t\n', '    indexed = enumerate(collection)\n    for i, t in indexed:\n        if (count >= 0 and position <= i < position + count\n                or count < 0 and i >= position):\n            yield value\n            break\n        yield t\n    else:\n        return\n    for i, t in indexed:\n        if not (count >= 0 and position <= i < position + count\n                or count < 0 and i >= position):\n            yield t\n',
  'twin: the first loop breaks out, the second continues the same cursor')

# ------------------------------------------- rules added after seed round 3
V('01.8', 'C01', 'R01f', 'fire', LEX,
  "    def __init__(self, yaql_operators):\n        self._operators_table = yaql_operators.operators\n",
  "    _known_symbols = set()\n\n    def __init__(self, yaql_operators):\n        self._operators_table = yaql_operators.operators\n        self._known_symbols.update(\n            r[0] for r in yaql_operators.operators.values())\n",
  'lexer fills a class-level set: shared by every engine')
V('01.8t', 'C01', '', 'silent', LEX,
  "    def __init__(self, yaql_operators):\n        self._operators_table = yaql_operators.operators\n",
  "    def __init__(self, yaql_operators):\n        self._operators_table = yaql_operators.operators\n        self._known_symbols = set()\n        self._known_symbols.update(\n            r[0] for r in yaql_operators.operators.values())\n",
  'twin: the set lives on the instance')
V('02.8', 'C02,C15', 'R02e', 'fire', PAR,
  "            if p[1] in yaql_operators.operators:\n                alias = this._aliases.get(p.slice[1].type)\n",
  "            if p[1] in yaql_operators.operators:\n                alias = this._aliases.get(p.slice[1].type)\n                if p[1] == '+' and alias is None:\n                    p[0] = p[2]\n                    return\n",
  'prefix plus elided by the reduce action')
V('04.9', 'C04', 'R04e', 'fire', QUE,
  "    return map(lambda t: operator(t, attribute), collection)",
  "    return map(lambda t: t.get(attribute.value) if isinstance(\n        t, utils.MappingType) else operator(t, attribute), collection)",
  'collection attribution answers dictionaries itself')
V('04.9t', 'C04', '', 'silent', QUE,
  "    return map(lambda t: operator(t, attribute), collection)",
  "    return (operator(item, attribute) for item in collection)",
  'twin: generator expression through the delegate')
V('04.10', 'C04', 'R04f', 'fire', SYS,
  "    if len(args) > 0:\n        for i in range(len(lst)):\n            context[args[i]] = lst[i]\n    else:\n        for i, t in enumerate(itertools.chain(lst, sequence), 1):\n            context[str(i)] = t\n",
  "    for i, t in enumerate(itertools.chain(lst, sequence), 1):\n        context[str(i)] = t\n    for i in range(len(args)):\n        context[args[i]] = lst[i]\n",
  'named unpack also binds $1..$n')
V('04.10t', 'C04', '', 'silent', SYS,
  "    if len(args) > 0:\n        for i in range(len(lst)):\n            context[args[i]] = lst[i]\n    else:\n        for i, t in enumerate(itertools.chain(lst, sequence), 1):\n            context[str(i)] = t\n",
  "    if not args:\n        for i, t in enumerate(itertools.chain(lst, sequence), 1):\n            context[str(i)] = t\n        return context\n    for name, value in zip(args, lst):\n        context[name] = value\n",
  'twin: inverted test, early return, zip')
V('05.8', 'C05', 'R05g', 'fire', RUN,
  "    for key, a1 in kwargs_mapping1.items():\n        a2 = kwargs_mapping2[key]\n",
  "    for a1, a2 in zip(kwargs_mapping1.values(), kwargs_mapping2.values()):\n",
  'keyword parameters paired by position')
V('05.8t', 'C05', '', 'silent', RUN,
  "    for key, a1 in kwargs_mapping1.items():\n        a2 = kwargs_mapping2[key]\n",
  "    for key in kwargs_mapping1:\n        a1 = kwargs_mapping1[key]\n        a2 = kwargs_mapping2.get(key)\n",
  'twin: keyed lookups spelled differently')
V('07.12', 'C07', 'R07i', 'fire', UTI,
  "def is_sequence(obj):\n    return isinstance(obj, collections.abc.Sequence) and not isinstance(\n        obj, str)\n",
  "def is_sequence(obj):\n    if isinstance(obj, str):\n        return False\n    return isinstance(obj, collections.abc.Sequence) or (\n        hasattr(obj, '__getitem__') and hasattr(obj, '__len__'))\n",
  'sequence classifier probes for the protocol')
V('07.12t', 'C07', '', 'silent', UTI,
  "def is_sequence(obj):\n    return isinstance(obj, collections.abc.Sequence) and not isinstance(\n        obj, str)\n",
  "def is_sequence(obj):\n    if isinstance(obj, str):\n        return False\n    return isinstance(obj, collections.abc.Sequence)\n",
  'twin: guard clause')
V('08.11', 'C08', 'R08i', 'fire', COL,
  "        it = iter(t)\n        key = next(it)\n        value = next(it)\n",
  "        key, value = list(t)[:2]\n",
  'dict() drains every item')
V('08.11t', 'C08', '', 'silent', COL,
  "        it = iter(t)\n        key = next(it)\n        value = next(it)\n",
  "        it = iter(t)\n        key, value = next(it), next(it)\n",
  'twin: two next() in one statement')
V('10.8', 'C10', 'R10c', 'fire', 'yaql/__init__.py',
  "            if engine.options.get('yaql.convertOutputData', True):\n",
  "            if engine.options.get('yaql.convertOutputData',\n                                  not engine.options.get(\n                                      'yaql.convertSetsToLists', False)\n                                  or True) and engine.options.get(\n                    'yaql.convertInputData', True):\n",
  'output conversion also switched off by the input switch')
V('10.8t', 'C10', '', 'silent', 'yaql/__init__.py',
  "            if engine.options.get('yaql.convertOutputData', True):\n                return utils.convert_output_data(obj, limiter, engine)\n            return obj\n",
  "            convert = engine.options.get('yaql.convertOutputData', True)\n            if not convert:\n                return obj\n            return utils.convert_output_data(obj, limiter, engine)\n",
  'twin: inverted')
V('12.8', 'C12', 'R12h', 'fire', SPE,
  "                elif arg_name in kwargs:\n                    keyword_args[arg_name] = p\n                    del kwargs[arg_name]\n                elif p.default is NO_DEFAULT:\n                    return None\n                elif arg_position",
  "                elif kwargs.get(arg_name) is not None:\n                    keyword_args[arg_name] = p\n                    del kwargs[arg_name]\n                elif p.default is NO_DEFAULT:\n                    return None\n                elif arg_position",
  'null-valued keyword reads as absent')
V('12.8t', 'C12', '', 'silent', SPE,
  "                elif arg_name in kwargs:\n                    keyword_args[arg_name] = p\n                    del kwargs[arg_name]\n                elif p.default is NO_DEFAULT:\n                    return None\n                elif arg_position",
  "                elif arg_name in kwargs:\n                    keyword_args[arg_name] = p\n                    kwargs.pop(arg_name)\n                elif p.default is NO_DEFAULT:\n                    return None\n                elif arg_position",
  'twin: pop after the membership test')
V('13.7', 'C13', 'R13c', 'fire', QUE,
  "    for i, t in enumerate(collection):\n        if t == item:\n            return i\n    return -1\n",
  "    found = None\n    for i, t in enumerate(collection):\n        if t == item:\n            found = t\n            position = i\n            break\n    if found is None:\n        return -1\n    return position\n",
  'None as "not found" for a value that may be null')
V('13.7t', 'C13', '', 'silent', QUE,
  "    for i, t in enumerate(collection):\n        if t == item:\n            return i\n    return -1\n",
  "    position = None\n    for i, t in enumerate(collection):\n        if t == item:\n            position = i\n            break\n    if position is None:\n        return -1\n    return position\n",
  'twin: the sentinel variable holds an index, never a value')
V('17.9', 'C17,C04,C05', 'R17h', 'fire', CTX,
  "    def create_child_context(self):\n        return type(self.linked_context)(self)\n",
  "    def create_child_context(self):\n        return type(self.linked_context)(self.parent)\n",
  'child of a linked context hangs off the parent')
V('17.9t', 'C17', '', 'silent', CTX,
  "    def create_child_context(self):\n        return type(self)(self)\n",
  "    def create_child_context(self):\n        child = type(self)(self)\n        return child\n",
  'twin: through a local')
V('19.8', 'C19', 'R19d', 'fire', REG,
  "    def repl_func(match):\n        new_context = context.create_child_context()\n        _publish_match(context, match)\n        return repl(new_context)\n",
  "    last = []\n\n    def repl_func(match):\n        if last and last[0] == match.group():\n            return last[1]\n        new_context = context.create_child_context()\n        _publish_match(context, match)\n        last[:] = [match.group(), repl(new_context)]\n        return last[1]\n",
  'replacement remembered for a repeated match')
V('19.9', 'C19', 'R19e', 'fire', STR,
  "    return separator.join(map(str_delegate, sequence))",
  "    return separator.join(\n        str(t) if isinstance(t, (int, float)) else str_delegate(t)\n        for t in sequence)",
  'python str() of numbers, and so of booleans')
V('19.9t', 'C19', '', 'silent', STR,
  "    return separator.join(map(str_delegate, sequence))",
  "    return separator.join(str_delegate(t) for t in sequence)",
  'twin: generator expression through the delegate')
V('20.9', 'C20', 'R20e', 'fire', DAT,
  "    return dt1 < dt2\n",
  "    return (dt1 - dt2).total_seconds() < 0\n",
  'ordering through float seconds')
V('20.9t', 'C20', '', 'silent', DAT,
  "    return dt1 < dt2\n",
  "    return dt2 > dt1\n",
  'twin: mirrored comparison')
V('20.10', 'C20', 'R20f', 'fire', YTY,
  "                return value.replace(tzinfo=self.utctz)\n",
  "                return datetime.datetime(\n                    value.year, value.month, value.day, value.hour,\n                    value.minute, value.second, value.microsecond,\n                    self.utctz)\n",
  'datetime rebuilt field by field')

# ------------------------------------------- rules added after seed round 4
V('01.9', 'C01', 'R01h', 'fire', LEX,
  "        val = t.value[:-1]\n        t.value = val\n        return t\n",
  "        val = t.value[:-1]\n        t.value = val\n        t.lexer.push_state('INITIAL')\n        t.lexer.pop_state()\n        return t\n",
  'token action pushes / pops the lexer state stack shared by clones')
V('18.9', 'C18,C01', 'R18g', 'fire', UTI,
  "    if quota <= 0:\n        return\n\n    total = 0\n",
  "    if quota <= 0:\n        return\n    sys.setrecursionlimit(max(sys.getrecursionlimit(), 2000))\n\n    total = 0\n",
  'library code raises the recursion limit of the whole process')
V('18.9t', 'C18', '', 'silent', UTI,
  "    if quota <= 0:\n        return\n\n    total = 0\n",
  "    if quota <= 0 or sys.getrecursionlimit() < 10:\n        return\n\n    total = 0\n",
  'twin: reads the setting only')
V('08.12', 'C08', 'R08j', 'fire', COL,
  "        result[key] = value\n        utils.limit_memory_usage(engine, (1, result))\n    return result\n",
  "        result[key] = value\n    utils.limit_memory_usage(engine, (1, result))\n    return result\n",
  'toDict measures its table once, after the loop')
V('10.9', 'C10', 'R10f', 'fire', FAC,
  "        self._options = utils.FrozenDict(options or {})\n",
  "        self._options = options or {}\n",
  'engine keeps the caller dict itself')
V('10.9t', 'C10', '', 'silent', FAC,
  "        self._options = utils.FrozenDict(options or {})\n",
  "        snapshot = dict(options or {})\n        self._options = utils.FrozenDict(snapshot)\n",
  'twin: copied through a local')
V('17.10', 'C17,C10,C04', 'R17i', 'fire', CTX,
  "            result = ctx.get_data(name, utils.NO_VALUE, False)\n            if result is utils.NO_VALUE:\n                ctx = ctx.parent\n            else:\n                return result\n        return default\n\n    def __delitem__(self, name):\n        self._data.pop(self._normalize_name(name))",
  "            result = ctx.get_data(name, None, False)\n            if result is None:\n                ctx = ctx.parent\n            else:\n                return result\n        return default\n\n    def __delitem__(self, name):\n        self._data.pop(self._normalize_name(name))",
  'None as the not-bound marker in the parent walk')
V('13.8', 'C13', 'R13d', 'fire', UTI,
  "            self._hash = 0\n            for pair in self.items():\n                self._hash ^= hash(pair)\n",
  "            self._hash = hash(tuple(sorted(self._d.items(), key=repr)\n                                    if False else self._d.items()))\n",
  'order-sensitive FrozenDict hash')
V('13.8t', 'C13', '', 'silent', UTI,
  "            self._hash = 0\n            for pair in self.items():\n                self._hash ^= hash(pair)\n",
  "            self._hash = hash(frozenset(self._d.items()))\n",
  'twin: frozenset of the items')
V('12.9', 'C12', 'R12j', 'fire', UTI,
  "        if not is_keyword(name):\n            del parameters[name]\n",
  "        if not is_keyword(name) or name.endswith('_'):\n            del parameters[name]\n",
  'call() also drops names with a trailing underscore')
V('12.9t', 'C12', '', 'silent', UTI,
  "    parameters = dict(parameters)\n    for name in parameters.keys():\n        if not is_keyword(name):\n            del parameters[name]\n    return parameters\n",
  "    return {name: value for name, value in parameters.items()\n            if is_keyword(name)}\n",
  'twin: dict comprehension')
V('02.9', 'C02,C16', 'R02h', 'fire', FAC,
  "            ('mod', OperatorType.BINARY_LEFT_ASSOCIATIVE),\n",
  "            ('mod', OperatorType.BINARY_LEFT_ASSOCIATIVE),\n            ('rem', OperatorType.BINARY_LEFT_ASSOCIATIVE),\n",
  'undocumented operator word in the default table')

# ---------------------------------------------------------------- round 5
V('01.10', 'C01', 'R01i', 'fire', FAC,
  "        return expressions.Statement(\n            self.parser.parse(expression, lexer=self.lexer.clone()), self)",
  "        try:\n            tree = self.parser.parse(expression, lexer=self.lexer.clone())\n        except exceptions.YaqlParsingException:\n            self.parser.restart()\n            raise\n        return expressions.Statement(tree, self)",
  'parser.restart() after a failed parse: resets another thread\'s stacks')
V('01.10t', 'C01', '', 'silent', FAC,
  "        return expressions.Statement(\n            self.parser.parse(expression, lexer=self.lexer.clone()), self)",
  "        tree = self.parser.parse(expression, lexer=self.lexer.clone())\n        return expressions.Statement(tree, self)",
  'twin: tree bound to a local')
V('01.11', 'C01,C18', 'R18h', 'fire', PAR,
  "        def p_unary(this, p):\n",
  "        suffixes = filter(None, binary_doc.split())\n\n        def p_unary(this, p):\n            if p[1] in suffixes:\n                pass\n",
  'a generated action reads a one-shot iterator of the generating call')
V('04.11', 'C04', 'R04i', 'fire', COL,
  "    utils.limit_memory_usage(engine, *((1, t) for t in args))\n    return tuple(args)\n",
  "    utils.limit_memory_usage(engine, *((1, t) for t in args))\n    out = []\n    for t in args:\n        if utils.is_iterator(t):\n            out.extend(t)\n        else:\n            out.append(t)\n    return tuple(out)\n",
  '[a, b] splices elements that are iterators')
V('04.11t', 'C04', '', 'silent', COL,
  "    utils.limit_memory_usage(engine, *((1, t) for t in args))\n    return tuple(args)\n",
  "    utils.limit_memory_usage(engine, *((1, t) for t in args))\n    out = []\n    for t in args:\n        out.append(t)\n    return tuple(out)\n",
  'twin: explicit loop')
V('05.12', 'C05', 'R05i', 'fire', YTY,
  "            lambda value, context, *args, **kwargs: isinstance(\n                value, self.python_type) and all(\n                map(lambda t: t(value), self.validators)))",
  "            lambda value, context, *args, **kwargs: type(value) is \\\n            self.python_type or isinstance(\n                value, self.python_type) and all(\n                map(lambda t: t(value), self.validators)))",
  'exact-class fast path around the validators')
V('05.12t', 'C05', '', 'silent', YTY,
  "            lambda value, context, *args, **kwargs: isinstance(\n                value, self.python_type) and all(\n                map(lambda t: t(value), self.validators)))",
  "            lambda value, context, *args, **kwargs: isinstance(\n                value, self.python_type) and all(\n                t(value) for t in self.validators))",
  'twin: generator expression instead of map')
V('07.13', 'C07', 'R07j', 'fire', 'yaql/yaqlization.py',
  "            if not isinstance(value, str):\n                name = value[0]\n            else:\n                name = value\n            blacklist.add(name)\n",
  "            if isinstance(value, str):\n                blacklist.add(value)\n",
  'pair-form remap targets are no longer blacklisted')
V('07.13t', 'C07', '', 'silent', 'yaql/yaqlization.py',
  "            if not isinstance(value, str):\n                name = value[0]\n            else:\n                name = value\n            blacklist.add(name)\n",
  "            blacklist.add(value if isinstance(value, str) else value[0])\n",
  'twin: conditional expression')
V('09.10', 'C09', 'R09c', 'fire', EXP,
  "            context = context.create_child_context()\n            context.register_function(lambda x: x, name='#finalize')",
  "            context.register_function(lambda x: x, name='#finalize')",
  'fallback finalizer registered on the host\'s context')
V('14.12', 'C14', 'R14g', 'fire', UTI,
  "                val = next(self.seq)\n                yielded.append(val)\n",
  "                yielded.extend(itertools.islice(self.seq, 8))\n                val = yielded[self.index]\n",
  'memorize reads ahead in blocks')
V('14.10', 'C14,C11', 'R11e', 'fire', QUE,
  "    for t in collection:\n        key = t if key_selector is None else key_selector(t)\n        if key not in distinct_values:\n            distinct_values.add(key)\n",
  "    for t in filter(lambda x: key_selector is None or key_selector(x) not in distinct_values, collection):\n        key = t if key_selector is None else key_selector(t)\n        if key not in distinct_values:\n            distinct_values.add(key)\n",
  'distinct applies the selector in a filter and again in the body')
V('16.12', 'C16', 'R16g', 'fire', LEX,
  "        \"([^\"\\\\\\\\]|\\\\\\\\.)*\"\n        \"\"\"\n        try:\n            t.value = decode_escapes(t.value[1:-1])",
  "        \"([^\"\\\\\\\\]|\\\\\\\\.)*\"\n        \"\"\"\n        try:\n            t.value = codecs.decode(t.value[1:-1], 'unicode-escape')",
  'double-quoted literals decoded by another decoder')
V('16.12t', 'C16', '', 'silent', LEX,
  "        \"([^\"\\\\\\\\]|\\\\\\\\.)*\"\n        \"\"\"\n        try:\n            t.value = decode_escapes(t.value[1:-1])",
  "        \"([^\"\\\\\\\\]|\\\\\\\\.)*\"\n        \"\"\"\n        try:\n            body = t.value[1:-1]\n            t.value = decode_escapes(body)",
  'twin: body bound to a local')
V('17.11', 'C17', 'R17j', 'fire', CTX,
  "        self._functions.setdefault(spec.name, set()).add(spec)\n",
  "        self._functions[spec.name] = {spec}\n",
  'a registration replaces the earlier overloads of the name')
V('17.11t', 'C17', '', 'silent', CTX,
  "        self._functions.setdefault(spec.name, set()).add(spec)\n",
  "        overloads = self._functions.setdefault(spec.name, set())\n        overloads.add(spec)\n",
  'twin: set bound to a local')
V('17.12', 'C17', 'R17f', 'fire', CTX,
  "        if linked_context.parent:\n            super().__init__(\n                LinkedContext(parent_context, linked_context.parent,\n                              convention), convention)",
  "        if linked_context.parent and \\\n                linked_context.parent is not parent_context.parent:\n            super().__init__(\n                LinkedContext(parent_context, linked_context.parent,\n                              convention), convention)",
  'linked chain cut where it meets the host chain')
V('17.13', 'C17,C06,C05', 'R17d', 'fire', CTX,
  "        overloads = []\n        p = self\n        while p is not None:",
  "        overloads = []\n        name = name.rstrip('_')\n        if use_convention and self._convention is not None:\n            name = self._convention.convert_function_name(name)\n            use_convention = False\n        p = self\n        while p is not None:",
  'the name is translated once with the starting context\'s convention')
V('19.10', 'C19', 'R19b', 'fire', REG,
  "    for i, t in enumerate(match.groups(), 1):\n        rec = {\n            'value': t,",
  "    for i, t in enumerate(match.groups(''), 1):\n        rec = {\n            'value': t,",
  'unset groups published as empty strings')
V('19.11', 'C19', 'R19f', 'fire', STR,
  "    if trim_spaces:\n        string = string.strip(chars)\n    return not string\n",
  "    if trim_spaces:\n        string = string.strip(chars or ' \\t\\r\\n')\n    return not string\n",
  'isEmpty trims with its own default set')
V('20.11', 'C20', 'R20a', 'fire', DAT,
  "    return DATETIME_TYPE.fromtimestamp(timestamp, tz=zone)",
  "    return DATETIME_TYPE.fromtimestamp(\n        timestamp / 1000.0 if timestamp > 1e11 else timestamp, tz=zone)",
  'millisecond guess scales the timestamp')
VARIANTS = [v for v in VARIANTS if v is not None]
