"""Demonstration for C20/R20a,R20b (runs yaql; evidence for the findings)."""
import datetime
import sys
import warnings
warnings.filterwarnings('ignore')
import yaql
engine = yaql.YaqlFactory().create()
ctx = yaql.create_context()
bad = 0


def show(text, want, data=None):
    global bad
    try:
        r = engine(text).evaluate(data=data, context=ctx.create_child_context())
    except Exception as e:
        r = '%s: %s' % (type(e).__name__, e)
    ok = r == want
    bad += not ok
    print('%-62s -> %-28r %s' % (text, r, '' if ok else '(expected %r)' % (want,)))


show('datetime(1000, timespan(hours => 3)).timestamp', 1000.0)
show('datetime(1000, timespan(hours => 3)).utc.timestamp', 1000.0)
show('datetime(1000, timespan(hours => 3)).utc.offset.hours', 0.0)
show('datetime(1000, timespan(hours => 3)).utc = datetime(1000)', True)
show('datetime(datetime(2020, 5, 17, 10, offset => timespan(hours => -5)).timestamp).hour', 15)
show('$.timestamp', 86400.0, data=datetime.datetime(1970, 1, 2))
print('PROPERTY HOLDS' if not bad else 'PROPERTY VIOLATED by %d expressions' % bad)
sys.exit(1 if bad else 0)
