"""Demonstration for C13/R13a (runs yaql; evidence for the finding).
unpack() without names publishes $1..$n; over a one-shot iterator the first
element was lost.  Exit 0 = same result for a list and for an iterator."""
import sys
import warnings
warnings.filterwarnings('ignore')
import yaql
engine = yaql.YaqlFactory().create()
ctx = yaql.create_context()
a = engine('[2, 3].unpack() -> [$1, $2, $3]').evaluate(context=ctx)
b = engine('[2, 3].select($).unpack() -> [$1, $2, $3]').evaluate(context=ctx)
c = engine('[2, 3].select($).unpack(x, y) -> [$x, $y]').evaluate(context=ctx)
print('list source     :', a)
print('iterator source :', b)
print('with names      :', c)
ok = a == b == [2, 3, None] and c == [2, 3]
print('PROPERTY HOLDS' if ok else 'PROPERTY VIOLATED (first element lost for the one-shot iterator)')
sys.exit(0 if ok else 1)
