"""Demonstration for C06/R06b (runs yaql; evidence for the findings).
A Context subclass enumerates the overloads of one layer in a chosen order;
the outcome of resolving the same call must not depend on that order.
Exit 0 = one outcome per family over all permutations."""
import itertools
import sys
import warnings
warnings.filterwarnings('ignore')
import yaql
from yaql.language import contexts, specs, yaqltypes, exceptions


class OrderedContext(contexts.Context):
    order = None

    def get_functions(self, name, predicate=None, use_convention=False):
        funcs, excl = super().get_functions(name, predicate, use_convention)
        if name == 'f' and OrderedContext.order is not None:
            ranked = [fd for tag in OrderedContext.order for fd in funcs if fd.meta.get('tag') == tag]

            class Ordered(list):
                pass
            return Ordered(ranked), excl
        return funcs, excl


def outcome(ctx, engine, text):
    try:
        return repr(engine(text).evaluate(context=ctx))
    except exceptions.YaqlException as e:
        return type(e).__name__


engine = yaql.YaqlFactory().create()
bad = 0

# family 1: A more specific than B and C, B and C incomparable
base = yaql.create_context()
ctx = OrderedContext(base)


@specs.parameter('a', int)
@specs.parameter('b', int)
@specs.meta('tag', 'A')
@specs.name('f')
def f_a(a, b):
    return 'A'


@specs.parameter('a', int)
@specs.meta('tag', 'B')
@specs.name('f')
def f_b(a, b):
    return 'B'


@specs.parameter('b', int)
@specs.meta('tag', 'C')
@specs.name('f')
def f_c(a, b):
    return 'C'


for fn in (f_a, f_b, f_c):
    ctx.register_function(fn)
res = {}
for perm in itertools.permutations('ABC'):
    OrderedContext.order = perm
    res[''.join(perm)] = outcome(ctx, engine, 'f(1, 2)')
print('family int,int / int,any / any,int  call f(1, 2):', res)
bad += len(set(res.values())) != 1

# family 2: one overload disables keyword arguments, the other accepts them
ctx2 = OrderedContext(base)


@specs.no_kwargs
@specs.meta('tag', 'A')
@specs.name('f')
def g_a(a):
    return 'A'


@specs.meta('tag', 'B')
@specs.name('f')
def g_b(a):
    return 'B'


ctx2.register_function(g_a)
ctx2.register_function(g_b)
res2 = {}
for perm in itertools.permutations('AB'):
    OrderedContext.order = perm
    res2[''.join(perm)] = outcome(ctx2, engine, 'f(1 => 2)')
print('family no_kwargs / kwargs           call f(1 => 2):', res2)
bad += len(set(res2.values())) != 1
print('PROPERTY HOLDS' if not bad else 'PROPERTY VIOLATED in %d families (outcome depends on enumeration order)' % bad)
sys.exit(1 if bad else 0)
