"""Demonstration for C07/R07f (runs yaql; evidence for the known finding).
A host callable that merely occurs in the *data* -- not registered in the
context, not yaqlized -- is invoked by an expression through call().
Exit 1 = the canary was called."""
import sys
import warnings
warnings.filterwarnings('ignore')
import yaql

calls = []


def canary(*args):
    calls.append(args)
    return True


engine = yaql.YaqlFactory().create({'yaql.convertInputData': True})
ctx = yaql.create_context()
data = {'f': canary, 'xs': [1, 2]}
res = engine('call(where, [$.f], {}, $.xs)').evaluate(data=data, context=ctx)
print('result:', res, ' canary invoked with:', calls)
print('PROPERTY VIOLATED (unregistered host callable invoked)' if calls else 'PROPERTY HOLDS')
sys.exit(1 if calls else 0)
