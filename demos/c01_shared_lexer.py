"""Demonstration for C01/R01a (runs yaql; evidence for the finding, not a check).

Two real threads parse with ONE engine.  Thread A is paused after it fetched its
first token; thread B then parses its own text to completion; A resumes.  On
the defective tree A returns a tree that is not the tree of its text.
Exit 0 = property holds for this schedule, 1 = violated.
"""
import sys
import threading
import warnings
warnings.filterwarnings('ignore')
import yaql

engine = yaql.YaqlFactory().create()
reference = str(yaql.YaqlFactory().create()('1 + 2'))

a_has_first_token = threading.Event()
b_done = threading.Event()
a_ident = {}

import ply.lex as plylex
orig_token = plylex.Lexer.token


def token(self):
    tok = orig_token(self)
    if threading.get_ident() == a_ident.get('id') and not a_ident.get('hit'):
        a_ident['hit'] = True
        a_has_first_token.set()
        b_done.wait(5)
    return tok


plylex.Lexer.token = token
result = {}


def thread_a():
    a_ident['id'] = threading.get_ident()
    try:
        result['a'] = str(engine('1 + 2'))
    except Exception as e:
        result['a'] = 'EXC %s: %s' % (type(e).__name__, e)


def thread_b():
    a_has_first_token.wait(5)
    try:
        result['b'] = str(engine("'x' + 'y' + 'z'"))
    except Exception as e:
        result['b'] = 'EXC %s' % type(e).__name__
    b_done.set()


ta = threading.Thread(target=thread_a)
tb = threading.Thread(target=thread_b)
ta.start(); tb.start(); ta.join(); tb.join()
print('fresh engine parses "1 + 2" as :', reference)
print('thread A on the shared engine  :', result['a'])
print('thread B                       :', result['b'])
ok = result['a'] == reference
print('PROPERTY HOLDS' if ok else 'PROPERTY VIOLATED (A got a tree that is not its text\'s)')
sys.exit(0 if ok else 1)
