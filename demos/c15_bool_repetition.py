"""Demonstration for C15/R15a (runs yaql).  A boolean must never be accepted
as a number by the repetition operators.  Exit 0 = all four are rejected."""
import sys
import warnings
warnings.filterwarnings('ignore')
import yaql
from yaql.language.exceptions import NoMatchingFunctionException
engine = yaql.YaqlFactory().create()
bad = 0
for text in ["'ab' * true", "true * 'ab'", "[1, 2] * true", "false * [1, 2]", "'ab' * 2", "[1] * 2"]:
    try:
        r = engine(text).evaluate(context=yaql.create_context())
        print('%-16s -> %r' % (text, r))
        bad += 'true' in text or 'false' in text
    except NoMatchingFunctionException:
        print('%-16s -> no matching function' % text)
print('PROPERTY HOLDS' if not bad else 'PROPERTY VIOLATED (%d boolean operands accepted as repeat counts)' % bad)
sys.exit(1 if bad else 0)
