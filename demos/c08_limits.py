"""Demonstration for C08/R08a,R08b (runs yaql; evidence for the findings).
Each expression runs over an endless source with yaql.limitIterators=10, in a
child process with a 1 GiB address-space limit and a 4 s deadline.
Exit 0 = each one raised CollectionTooLargeException."""
import subprocess
import sys

CHILD = r'''
import resource, sys, warnings
warnings.filterwarnings('ignore')
resource.setrlimit(resource.RLIMIT_AS, (1 << 30, 1 << 30))
import yaql
from yaql.language.exceptions import CollectionTooLargeException
engine = yaql.YaqlFactory().create({'yaql.limitIterators': 10})
try:
    engine(sys.argv[1]).evaluate(context=yaql.create_context())
    print('returned a value')
except CollectionTooLargeException:
    print('CollectionTooLargeException')
except MemoryError:
    print('MemoryError (pulled until the address space was exhausted)')
'''
bad = 0
for text in ['len(sequence())', 'sequence().count()', 'generateMany(0, sequence()).take(3)',
             'generateMany(0, sequence(), depthFirst => true).take(3)']:
    try:
        r = subprocess.run([sys.executable, '-c', CHILD, text], capture_output=True, text=True, timeout=4)
        out = (r.stdout.strip().splitlines() or ['exit %d' % r.returncode])[-1]
    except subprocess.TimeoutExpired:
        out = 'still pulling after 4 s (limit of 10 ignored)'
    print('%-58s -> %s' % (text, out))
    bad += out != 'CollectionTooLargeException'
print('PROPERTY HOLDS' if not bad else 'PROPERTY VIOLATED by %d expressions' % bad)
sys.exit(1 if bad else 0)
