"""Demonstration for C03/R03a (runs yaql; evidence for the finding, not a check).
Exit 0 = every input below gives a statement or a YaqlParsingException."""
import sys
import warnings
warnings.filterwarnings('ignore')
import yaql
from yaql.language.exceptions import YaqlParsingException

engine = yaql.YaqlFactory().create()
inputs = ['9' * 5000, r"'\xzz'", r'"\N{nope}"', r"'\U00110000'", r"'\u12'",
          "1 +", "'\\x41'", '12.5']
bad = 0
for text in inputs:
    shown = text if len(text) < 30 else text[:10] + '...(%d chars)' % len(text)
    try:
        engine(text)
        print('%-28s -> statement' % shown)
    except YaqlParsingException as e:
        ok = e.position is None or 0 <= e.position <= len(text)
        print('%-28s -> %s position=%r %s' % (shown, type(e).__name__, e.position, '' if ok else 'OUTSIDE INPUT'))
        bad += 0 if ok else 1
    except Exception as e:
        print('%-28s -> ESCAPED %s: %s' % (shown, type(e).__name__, str(e)[:60]))
        bad += 1
print('PROPERTY HOLDS' if not bad else 'PROPERTY VIOLATED on %d inputs' % bad)
sys.exit(1 if bad else 0)
