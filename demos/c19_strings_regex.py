"""Demonstration for C19/R19a,R19b (runs yaql; evidence for the findings)."""
import sys
import warnings
warnings.filterwarnings('ignore')
import yaql
engine = yaql.YaqlFactory().create()
bad = 0
for text in ["characters(letters => true).len()", "characters(lowercase => true).len()",
             "characters(uppercase => true).len()",
             "regex('(?P<x>a)(b)').search('cab', $x.value + ':' + str($x.start) + ':' + $2.value + ':' + $3.value)",
             "regex('(?P<w>[a-z]+)').searchAll('ab cd', $w.value)",
             "regex('(?P<d>\\\\d)').replaceBy('a1b2', '<' + $d.value + '>')"]:
    try:
        r = engine(text).evaluate(context=yaql.create_context())
        print('%-100s -> %r' % (text, r))
    except Exception as e:
        bad += 1
        print('%-100s -> %s: %s' % (text, type(e).__name__, e))
print('PROPERTY HOLDS' if not bad else 'PROPERTY VIOLATED by %d expressions' % bad)
sys.exit(1 if bad else 0)
