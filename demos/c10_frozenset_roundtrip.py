"""Demonstration for C10/R10b (runs yaql).  `$` must return an equal document
in canonical container types: a host frozenset must come back as a set under
the default options, exactly like a host set.  Exit 0 = it does."""
import sys
import warnings
warnings.filterwarnings('ignore')
import yaql
engine = yaql.YaqlFactory().create()
a = engine('$').evaluate(data={'k': {1, 2}}, context=yaql.create_context())
b = engine('$').evaluate(data={'k': frozenset({1, 2})}, context=yaql.create_context())
print('host set       ->', a)
print('host frozenset ->', b)
ok = a == {'k': {1, 2}} and b == {'k': {1, 2}}
print('PROPERTY HOLDS' if ok else 'PROPERTY VIOLATED (frozenset does not round-trip as a set)')
sys.exit(0 if ok else 1)
