"""Demonstration for C11/R11e (runs yaql; evidence for the finding).
Counts how often orderBy's selector lambda is applied.  Exit 0 = once per
element (and per ordering level at most once per element)."""
import sys
import warnings
warnings.filterwarnings('ignore')
import yaql

counts = {'probe': 0, 'probe2': 0}


def probe(x):
    counts['probe'] += 1
    return x


def probe2(x):
    counts['probe2'] += 1
    return x


engine = yaql.YaqlFactory().create()
ctx = yaql.create_context()
ctx.register_function(probe)
ctx.register_function(probe2)
data = [5, 3, 9, 1, 7, 2, 8, 6, 4, 0, 15, 13, 19, 11, 17, 12]
res = engine('$.orderBy(probe($))').evaluate(data=data, context=ctx)
n1 = counts['probe']
counts['probe'] = 0
res2 = engine('$.orderBy(probe($ mod 2)).thenBy(probe2($))').evaluate(data=data, context=ctx)
print('orderBy over %d elements        : selector applied %d times, sorted ok: %s' % (len(data), n1, res == sorted(data)))
print('orderBy.thenBy over %d elements : first selector %d times, second %d times, sorted ok: %s' % (
    len(data), counts['probe'], counts['probe2'], res2 == sorted(data, key=lambda v: (v % 2, v))))
ok = n1 == len(data) and counts['probe'] == len(data) and counts['probe2'] <= len(data)
print('PROPERTY HOLDS' if ok else 'PROPERTY VIOLATED (selector re-run per comparison)')
sys.exit(0 if ok else 1)
