"""Demonstration for C10/R10a (runs yaql; evidence for the known findings).
Expressions whose evaluation succeeds but whose finalisation raises TypeError
because an element/key is converted to an unhashable list/dict/set first."""
import sys
import warnings
warnings.filterwarnings('ignore')
import yaql
cases = [
    ({}, 'dict(a => 1).items()'),
    ({}, '[[1, 2]].toSet()'),
    ({}, '{[1, 2] => 3}'),
    ({}, '{set(1, 2) => 3}'),
    ({}, '{dict(a => 1) => 3}'),
    ({}, 'set(dict(a => 1))'),
    ({}, 'set(set(1))'),
    ({'yaql.convertTuplesToLists': False}, 'dict(a => [1].insert(0, 2)).items()'),
    ({'yaql.convertSetsToLists': True}, '{[1, 2] => 3}'),
]
bad = 0
for opts, text in cases:
    engine = yaql.YaqlFactory().create(opts)
    try:
        r = engine(text).evaluate(context=yaql.create_context())
        print('%-46s %-40s -> %r' % (text, opts or 'default options', r))
    except TypeError as e:
        bad += 1
        print('%-46s %-40s -> TypeError: %s' % (text, opts or 'default options', e))
print('PROPERTY HOLDS' if not bad else 'PROPERTY VIOLATED: finalisation failed for %d expressions' % bad)
sys.exit(1 if bad else 0)
